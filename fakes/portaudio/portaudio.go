package portaudio

type DeviceInfo struct{}
type HostApiInfo struct {
	DefaultOutputDevice *DeviceInfo
}
type StreamParameters struct{}
type Stream struct {
	Callback func([]float32)
	Started  bool
	Closed   bool
}

var Streams []*Stream
var Initialized, TerminatedN int

func Initialize() error { Initialized++; return nil }
func Terminate() error  { TerminatedN++; return nil }
func DefaultHostApi() (*HostApiInfo, error) {
	return &HostApiInfo{DefaultOutputDevice: &DeviceInfo{}}, nil
}
func LowLatencyParameters(in, out *DeviceInfo) StreamParameters { return StreamParameters{} }
func OpenStream(p StreamParameters, args ...interface{}) (*Stream, error) {
	s := &Stream{}
	if len(args) > 0 {
		if cb, ok := args[0].(func([]float32)); ok {
			s.Callback = cb
		}
	}
	Streams = append(Streams, s)
	return s, nil
}
func (s *Stream) Start() error { s.Started = true; return nil }
func (s *Stream) Close() error { s.Closed = true; return nil }
