package glfw

type Hint int
type Key int
type Action int
type ModifierKey int
type Monitor struct{}
type KeyCallback func(w *Window, key Key, scancode int, action Action, mods ModifierKey)

const (
	ContextVersionMajor Hint = iota
	ContextVersionMinor
	Resizable
)
const (
	Release Action = 0
	Press   Action = 1
	Repeat  Action = 2
)
const (
	KeyA Key = 65
	KeyS Key = 83
	KeyZ Key = 90
	KeyX Key = 88
	KeyT Key = 84
	KeyRight Key = 262
	KeyLeft  Key = 263
	KeyDown  Key = 264
	KeyUp    Key = 265
)

type Window struct {
	Close bool
	cb    KeyCallback
	Swaps int
}

var Current *Window
var Terminated int
var OnPoll func(w *Window)

func Init() error                 { return nil }
func WindowHint(h Hint, v int)    {}
func SwapInterval(i int)          {}
func Terminate()                  { Terminated++ }
func PollEvents() {
	if OnPoll != nil && Current != nil {
		OnPoll(Current)
	}
}
func CreateWindow(w, h int, title string, m *Monitor, share *Window) (*Window, error) {
	Current = &Window{}
	return Current, nil
}
func (w *Window) MakeContextCurrent() {}
func (w *Window) SetKeyCallback(cb KeyCallback) KeyCallback {
	old := w.cb
	w.cb = cb
	return old
}
func (w *Window) SwapBuffers()      { w.Swaps++ }
func (w *Window) ShouldClose() bool { return w.Close }
func (w *Window) Inject(key Key, action Action) {
	if w.cb != nil {
		w.cb(w, key, 0, action, 0)
	}
}
