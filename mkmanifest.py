#!/usr/bin/env python3
"""Regenerates MANIFEST.json from the table below (run after adding a check)."""
import json, os, subprocess
ROOT = os.path.dirname(os.path.abspath(__file__))

# id -> (built, technique, level text, level note, design ref)
T = {
 'C01': (True, 'exhaustive enumeration + rapid generation of single instructions against a reference SM83 interpreter', "All 8-bit ALU, CB, INC/DEC, accumulator/flag (incl. DAA), POP AF, 16-bit INC/DEC and (thorough) all 2^24 ADD SP,e / LD HL,SP+e input combinations are enumerated completely against an independent x/y/z-decoded reference interpreter; every other opcode is exercised with hundreds of thousands of rapid-generated register/flag/memory states with structured pointers, with a whole-memory shadow comparison for 'changes nothing else'.", "refcpu (the reference interpreter) is trusted; it was written from the opcode documentation in a different decomposition from tetromino's closure tables and agrees with the repository's daa.csv on all 2048 rows. Operands are restricted to plain memory (I/O semantics are other properties).", '§5 C01'),
 'C02': (True, 'enumeration of opcode x flag nibble and rapid programs against a reference cycle table', 'Every defined opcode x all 16 flag nibbles (both outcomes of every condition) x 64-1024 random states is timed between instruction boundaries against the reference cycle table; tens of thousands of generated programs are run in lock-step comparing the cycle count of every instruction; writes to the registers FF4C-FF7F of the colour model followed by STOP, on cartridges with any colour flag, must leave 14 timed instructions at their documented lengths; HALT is timed in the one situation where it has a documented length (IME clear, request pending: one cycle, next instruction starts at once); plus the blargg instr_timing verdict.', 'The cycle table in refcpu is typed in from the SM83 timing reference; STOP, and HALT when it idles, have no fixed length and are excluded.', '§5 C02'),
 'C03': (True, 'one-hot marker differential per machine cycle against a reference access schedule', 'For each of the 99 opcodes with a data access, rapid draws operand addresses/registers and a marker byte; one run per candidate machine cycle with one-hot operand values identifies the cycle of every read, per-cycle snapshots identify the cycle of every write; in a third of the cases the measured instruction runs straight after a register-preserving conditional jump, call or return; plus blargg mem_timing and mem_timing-2 verdicts.', "Immediate-operand fetch cycles are not asserted (the property is about data accesses); documented access cycles come from refcpu's access schedule.", '§5 C03'),
 'C04': (True, 'exhaustive IE x IF x IME enumeration + rapid interrupt programs in lock-step with a reference model', 'All 256 IE x 32 IF x 2 IME combinations at a boundary x 7 following instruction kinds are enumerated, back-to-back re-entry of short handlers (5 bits x 6 handlers, behind a JP or at the vector itself, x re-raise timing) is enumerated, and tens of thousands of generated EI/DI/RETI/IF/IE programs with requests raised at arbitrary machine cycles (single or in bursts from one source) run in lock-step with a reference that models IME, the EI delay, priority, the 5-cycle dispatch, pushed address and IF clearing; plus 8 interrupt ROM verdicts.', "Where a higher-priority request arrives during the 5 dispatch cycles either choice of vector is accepted; instruction semantics are re-synchronised rather than judged (C01's business).", '§5 C04'),
 'C05': (True, 'enumeration of HALT contexts x following opcode x idle length against a reference model', 'HALT under IME {0,1} x request pending / arriving after up to K idle cycles x 5 sources x every defined opcode as the following instruction is enumerated; the halt bug is judged metamorphically (the implementation executing the duplicated byte from PC-1 must agree with its halt-bug run); generated programs mix HALT with EI/DI/IF writes and requests; plus 4 halt ROM verdicts.', 'Wake-up latency with IME=0 is accepted up to 2 cycles; a CB prefix under the halt bug may decode as on hardware (prefix read twice) or as tetromino does (CB xx, then xx again) - nothing else.', '§5 C05'),
 'C06': (False, 'rapid stateful read/write sequences + exhaustive single-write sweep against a reference address map', '', '', '§5 C06'),
 'C07': (False, 'frame-condition differential: full 64K snapshot before/after a generated write vs allowed-effect table', '', '', '§5 C07'),
 'C08': (False, 'exhaustive single writes / MBC1 register triples + rapid stateful sequences vs reference bank controllers with page signatures', '', '', '§5 C08'),
 'C09': (False, 'rapid stateful sequences against a reference cartridge-RAM cell store', '', '', '§5 C09'),
 'C10': (False, 'exhaustive one-step carry chain + rapid stateful histories against a reference RTC', '', '', '§5 C10'),
 'C11': (False, 'robustness fuzzing: rapid + native go fuzz of ROM images, exhaustive single writes, rapid programs; oracle = no panic after construction', '', '', '§5 C11'),
 'C12': (True, 'bounded-exhaustive operation sequences + rapid long schedules against a reference timer with don\'t-care sets', "Every sequence of 4 (thorough 5) machine cycles over 17 per-cycle write symbols from several hundred start states around each selected counter bit's edge and counter wrap is enumerated on a bare timer, and long rapid schedules run on a bare timer and through the address decoder + frame-loop wiring, compared after every write and tick with a candidate-set reference (DIV, TIMA, TMA, TAC, interrupt count).", "At most one write per machine cycle (as a CPU can issue); hidden edges within a cycle, increments coinciding with a reload/TIMA write and interrupts of cancelled overflows are don't-cares. The TLA+ model check mentioned in the quantifier is a different technique and is not done.", '§5 C12'),
 'C13': (False, 'rapid LCD on/off schedules compared cycle by cycle with a reference line/mode counter', '', '', '§5 C13'),
 'C14': (False, 'enumeration of STAT source x LYC + rapid schedules against reference request events', '', '', '§5 C14'),
 'C15': (False, 'rapid scenes against a reference renderer, pixel-exact', '', '', '§5 C15'),
 'C16': (False, 'enumeration of DMA source pages + rapid restarts/reads against a reference copy model', '', '', '§5 C16'),
 'C17': (False, 'rapid pointer-walking programs with OAM compared against a plain-memory model', '', '', '§5 C17'),
 'C18': (False, 'rapid stateful register write/power sequences against a mask/power reference model', '', '', '§5 C18'),
 'C19': (False, 'rapid schedules against a reference length/status model, cycle by cycle', '', '', '§5 C19'),
 'C20': (False, 'rapid register schedules with per-cycle sample counting, range/routing invariants and paired-run metamorphic relation', '', '', '§5 C20'),
 'C21': (False, 'enumeration of frequencies / NR43 values with step-count fit and LFSR recurrence/period oracle', '', '', '§5 C21'),
 'C22': (True, 'exhaustive breadth-first exploration of the reference controller state space + rapid random event sequences',
         'Every reachable state of the reference joypad model (576) under every press/release event and every JOYP write (272) is driven on the real controller through the address decoder and FF00 compared after every event: exhaustive for the model\'s state space, plus random sequences up to 200 events for hidden implementation state.',
         'Reference model written from Pan Docs; the implementation is assumed to have no hidden state that is only reachable by paths much longer than the BFS tree and the 200-event random sequences.', '§5 C22'),
 'C23': (False, 'rapid programs/write sequences with the serial writer transcript compared against the reference store sequence', '', '', '§5 C23'),
 'C24': (False, 'differential re-execution: same ROM/config/inputs twice in-process and once in a child process, digests compared', '', '', '§5 C24'),
 'C25': (False, 'rapid interleavings of several instances compared with solo runs', '', '', '§5 C25'),
 'C26': (False, 'differential runFrame vs documented stepping order on generated programs + deterministic cancellation points', '', '', '§5 C26'),
}

def claim(pid, text, note):
    T[pid] = (True, T[pid][1], text, note, T[pid][4])

claim('C06', 'Single-write sweep from power-on (every I/O address x all 256 values; every memory address x 12 values, thorough all 256) and thousands of rapid write/read/run sequences over the whole 64 KiB on ROM-only, MBC1+RAM and MBC5+RAM cartridges are compared read by read with a reference address map (plain regions, echo in both directions, FEA0-FEFF, unmapped I/O, per-register writable/ones masks, LY/DIV never taking the written value, FF46 read-back); a twin machine that receives every operation except the stores to LY must show the same LY and STAT after every step; a third of the cartridges carry a colour flag, stores to the registers of the colour model are sandwiched between plain accesses, and one to three accesses are made while an OAM DMA transfer is in flight.',
      'OBP0/OBP1 bits 0-1 and the sound registers (C18) are not judged here; VRAM/OAM are only touched with the LCD off and outside DMA; TIMA is judged with the timer stopped.')
claim('C07', 'From 13 machine states (every controller type, LCD on/off, every STAT source selected with LYC = LY, APU on/off with running channels and length counters at 1 on an odd sequencer step, running timer about to overflow, selected clock register, held buttons, an upward frequency sweep armed just below overflow) every I/O address x 16 values (thorough 256) and a boundary-weighted sweep of 0000-FEFF (thorough every address), plus rapid (state, preamble, write) cases: all 64 KiB are read before and after each single write and the changed bits must lie inside the documented effect set of the written address (bit-granular for STAT and NR52).',
      'The effect table is taken from the property statement; reads used for the snapshots are side-effect free in the states used (no CPU running).')
claim('C08', 'From reset every cartridge type x declared ROM size x control-address variant x all 256 values, every MBC1 (BANK1,BANK2,MODE) triple and MBC5 (low,high) pairs are enumerated, plus rapid write sequences per controller; after every write the page mapped in each window is identified by page signatures and compared with a reference controller, and ROM contents are re-verified after each sequence.',
      'Reference controllers written from Pan Docs; quick tier rotates one cartridge type per controller for the largest ROM sizes.')
claim('C09', 'Every enable byte x enable-address variant, every bank-select byte x RAM size code (ROM images from 64 KiB to 2 MiB), every A000-BFFF address of a ROM-only cartridge, plus rapid bus-level histories per controller (enable, bank select, MBC1 mode, write, read, dump) are compared with a reference cell store (disabled reads FF, banks modulo size, MBC2 512 half-bytes with upper nibble 1, DumpRAM agrees on every written cell).',
      'Never-written cells and RAM size code 1 beyond its first 2 KiB are not compared.')
claim('C10', 'All 88 473 600 in-range clock states go through one increment step against the documented carry chain, out-of-range states are checked for width invariants, the time base is measured on real Mapper.EndMachineCycle runs of k*1048576-1/+1 cycles halted and not, and 20 000 rapid histories (advance, latch 00/01 in any order, select, read, write, halt, RAM enable) run against a reference clock.',
      'Latch writes other than exactly 00 then 01 and the successor of an out-of-range counter are not asserted.')
claim('C11', 'Hostile and well-formed ROM images (every length class, arbitrary headers), every cartridge type x size code x control address x value, rapid access sequences over the whole address space, every sound channel restarted at every phase of its period, the LCD restarted twelve times before V-blank with window and objects at their extremes, and rapid guest programs hammering cartridge registers, DMA, LCDC, APU, OAM pointers and HALT/STOP for up to 60 000 cycles: construction may panic, any later panic is a violation; thorough adds native go fuzzing of image bytes.',
      'Undefined opcodes are never executed (boundary peek): executing one is the deliberate stop. Direct accesses are injected only after the first hardware cycle, the earliest point at which a guest program can make a data access.')
claim('C13', 'The LCD is switched off at every cycle of selected lines (thorough: all 154) and back on, and thousands of rapid on/off/register-write schedules (including stores to the read-only LY) of 2-6 frames run with LY and STAT mode compared with a reference line/mode counter after every machine cycle and every write; one uninterrupted run of 300 frames (thorough: also 600 after an off/on, and 66 000) is compared the same way.',
      'Reference counter implements exactly the schedule in the statement (first line 2 cycles short, 20/41/53, 114 per line, 154 lines).')
claim('C14', 'Each single STAT source (or none) x every LYC 0-153 and 154/200/255 x 3-5 frames, plus rapid off/on schedules with stores to LY and a 300-frame uninterrupted run per source: IF bits 0-1 are read and cleared after every machine cycle and compared with the required / allowed / forbidden requests derived from the reference line counter.',
      'OAM source at line 144 and requests at the instant of switch-on are don\'t-cares.')
claim('C15', 'Thousands of rapid scenes inside the statement\'s preconditions (any tile data, both maps and addressing modes, any scroll/palettes, window at WX 7-166, up to 40 sorted 8x8 objects at any position incl. beyond every edge, <= 10 per line, with dedicated campaigns crowding bands of lines and the frame seam) are rendered for three frames (a few scenes: frame 255-258) and all 23 040 pixels compared with an independent reference renderer through calibrated grey shades.',
      'Reference renderer written from Pan Docs; shade->RGBA is calibrated on four flat scenes and must be four distinct values.')
claim('C16', 'Every source page 00-F1 on four cartridge types, a restart at every cycle of a running transfer (ten page pairs incl. a page and its echo alias), a source byte modified at every cycle, plus 12 000 rapid cases: all of FE00-FEFF and FF46 are read every cycle (OAM FF during cycles 2-160, source bytes from cycle 162; FF46 the last value written); plus whole-machine cases in which a guest program starts the transfer (from work RAM, or from video RAM while the LCD draws) at a drawn LCD phase and polls OAM inside it.',
      'Cycles 0, 1 and 161 of a transfer and modifications within 2 cycles of a byte\'s copy slot accept either value.')
claim('C17', 'Pointer-walking programs (16-bit INC/DEC, PUSH/POP, LD through HL+/-, BC, DE) steered through FE00-FEFF run with the LCD switched off at every cycle of a line in every mode (and at power-on), and with the LCD on but scheduled outside mode 2, a quarter of them while a DMA transfer is in flight; OAM must equal a plain-memory model updated only by the program\'s own stores. A second observer puts a loop of register-only instructions INTO OAM and executes it with the LCD on: OAM is watched after every machine cycle through an access-free hook and may change only within two cycles after / one before a mode 2.',
      'With the LCD on, stores during mode 3 accept either value; mode-2 corruption itself is not modelled (allowed by the property).')
claim('C18', 'Every address FF10-FF3F x all 256 values in a power-cycle template plus 8000 rapid histories of writes, power toggles, wave RAM writes and runs: all 20 registers, NR52 (mask F0) and wave RAM (channel 3 off) are read back after every operation against the mask/power reference model; every channel is also left playing until envelope, sweep and length reach their end stops, and channel 3 is stopped (DAC, power, length) and restarted from the stopped state at the fastest frequencies.',
      'NR52 status bits are C19\'s; wave RAM cells written while channel 3 plays are unknown.')
claim('C19', 'Rapid schedules (three NR10 families, per channel and mixed) of length writes, DAC toggles, triggers and length-enable toggles placed at drawn offsets in either half of the 256 Hz period, power cycles, and waits to the predicted expiry: NR52 is compared with a reference length/status model after every write and every machine cycle, including across the one-second tick wrap.',
      'Sequencer grid phase is calibrated on a fresh instance; re-trigger at maximum length, decrease-mode sweep and never-written length counters are candidate sets.')
claim('C20', 'Rapid register schedules over 1.2-4 emulated seconds with and without outputs: per-cycle sample counting (L = R, 95-clock spacing, 44 149-44 150 pairs per second, none while off/unattached), range and finiteness of every sample, zero when no enabled channel is routed to a side, and a paired-run metamorphic check that a side never depends on a channel not routed to it.',
      'One 149-clock seam per emulated second (44 150 pairs) is accepted as well as the statement\'s 44 149.')
claim('C21', 'Channels 1-3 x every 11-bit frequency and channel 4 x every NR43 with s <= 13: the observed step times must fit one constant-phase grid of the documented period; the LFSR output stream must satisfy the 15-/7-bit recurrence and have least period 32 767 / 127; the same measurements are repeated in rapid contexts, including channels retuned while running without a trigger (the step in progress must stay on the old grid), channel 1 retuned by its sweep, other channels triggered during the observation, triggers with the frequency registers never written, measurements on the machine as constructed, and a restart through NR14 alone after the sweep has overflowed.',
      'Delay from trigger to the first step is not asserted; waveform state is observed through the verif hook.')
claim('C23', 'Rapid direct SB/SC write/read sequences mixed with other I/O traffic including DMA transfers in flight (with writer and, metamorphically, without) and rapid programs storing to SB/SC through every store form run in lock-step with the reference CPU: the writer transcript must equal the reference\'s stores to FF01 after every instruction; plus blargg ROMs with per-instruction store prediction.',
      'Transfer timing and the serial interrupt are not part of the property.')

claim('C24', 'Every non-empty ROM of the repository\'s test corpus, rapid-generated register-hammering programs and interrupt-storm programs whose handlers log to the serial port, x video/audio output on/off x drawn button schedules x drawn frame counts, are executed twice in one process and once in a freshly started child process through the real gameboy.New and runFrame (fake display/audio back ends); per-frame digests of the complete observable state, every audio sample, the serial bytes and the final state must be identical.',
      'Undefined opcodes (os.Exit by design) are avoided by a pre-flight on the peeking reference stepping; OAM is digested only outside mode 2 (a mode-2 read through the decoder arms the OAM bug).')
claim('C25', '2-3 instances over different generated programs (register hammering, or scenes with objects and window) / corpus ROMs, a quarter of them configured with the LCD debug option, are created in a drawn order and stepped in drawn interleavings: cycle-granular on the public-constructor machine (instances created up front or while the others already run; every instance compared after each slice with its solo run - in one case in three computed in a pristine child process - and idle instances checked for not moving) and frame-granular / concurrent through real gameboy.New + runFrame in a child process (per-frame digests, samples, serial compared with solo runs); thorough adds the concurrent mode under the race detector.',
      'Concurrent schedules are whatever the Go runtime interleaves; the deterministic interleaved modes carry the property. A child process that exits (a derailed instance reaching an undefined opcode) is reported as a violation.')
claim('C26', 'Generated programs poking DIV/TIMA/TAC/DMA/LCDC/IF/IE/APU/MBC registers run for 1-5 frames through the real runFrame and on a reference stepping of the same components in the documented order (complete state compared every frame, samples and serial at the end); per-frame progress of CPU (counting loop), timer (divider), memory (clock ticks, DMA), PPU (phase, VBlank) and audio (sample count) is measured directly for every cartridge type x output configuration x TAC; Run is stopped by window close (requested from the poll hook, or when the program reports a drawn frame - also by programs that have switched the LCD off), cancel from the poll hook, cancel from the serial writer, a context that ends like a deadline (DeadlineExceeded) and asynchronous cancel at drawn frames and must return within one further frame with stream, PortAudio, GLFW and speaker channels released.',
      'Stop requests are issued synchronously from inside the emulation thread so the frame they land in is exact; the display and audio back ends are pure-Go fakes compiled against the unmodified display.go and speakers.go.')

def main():
    hooks_commits = subprocess.run(['git', '-C', '/repo', 'log', '--format=%H', '--grep=^verif hooks'], stdout=subprocess.PIPE, text=True).stdout.split()
    checks, na = [], []
    for pid in sorted(T):
        built, tech, text, note, ref = T[pid]
        if not built:
            na.append({'property_id': pid, 'reason': 'check not built yet in this session (designed in DESIGN.md %s); not claimed until it exists and is silent on the unchanged tree' % ref})
            continue
        checks.append({
            'property_id': pid,
            'quick_cmd': './vcheck %s quick' % pid,
            'thorough_cmd': './vcheck %s thorough' % pid,
            'evidence_file': '/verif/evidence/%s.json' % pid,
            'replay_cmd_template': './vcheck replay {path}',
            'engine': 'vcheck',
            'level_claimed': {'category': 'exploration', 'text': text, 'design_ref': 'DESIGN.md ' + ref},
            'level_note': note,
            'technique': tech,
        })
    man = {
        'version': 1,
        'setup_cmd': './vcheck setup',
        'hooks': {
            'guard': 'verif',
            'enable': 'go test -tags verif (the harness module in /verif/harness replaces github.com/scottyw/tetromino with /repo and builds with -tags verif)',
            'baseline_off_cmd': 'cd /repo && GOFLAGS=-mod=mod GOPROXY=off GOSUMDB=off go test -json -vet=off -count=1 -timeout 25m ./... ; true',
            'source_commits': hooks_commits,
            'add_only': True,
        },
        'engines': [{'name': 'vcheck', 'path': '/verif/vcheck', 'serves_properties': [c['property_id'] for c in checks],
                     'kind_free_text': 'python3 driver that rebuilds the Go harness (pgregory.net/rapid v1.3.0 generators, exhaustive enumerators, reference models) against /repo with -tags verif, runs it in up to 16 shard processes, merges their reports into evidence and prints VIOLATION / KNOWN-FINDING lines'}],
        'checks': checks,
        'not_applicable': na,
        'notes': 'Exit 0 = held on everything explored; 1 = VIOLATION line printed; 2 = infrastructure failure (inconclusive). All checks honour VERIF_SEED and rebuild from /repo\'s working tree.',
    }
    json.dump(man, open(os.path.join(ROOT, 'MANIFEST.json'), 'w'), indent=1)
    print('claimed:', [c['property_id'] for c in checks])

main()
