#!/usr/bin/env python3
"""Regenerates MANIFEST.json from the table below (run after adding a check)."""
import json, os, subprocess
ROOT = os.path.dirname(os.path.abspath(__file__))

# id -> (built, technique, level text, level note, design ref)
T = {
 'C01': (False, 'exhaustive enumeration + rapid generation of single instructions against a reference SM83 interpreter', '', '', '§5 C01'),
 'C02': (False, 'enumeration of opcode x flag nibble and rapid programs against a reference cycle table', '', '', '§5 C02'),
 'C03': (False, 'one-hot marker differential per machine cycle against a reference access schedule', '', '', '§5 C03'),
 'C04': (False, 'exhaustive IE x IF x IME enumeration + rapid interrupt programs in lock-step with a reference model', '', '', '§5 C04'),
 'C05': (False, 'enumeration of HALT contexts x following opcode x idle length against a reference model', '', '', '§5 C05'),
 'C06': (False, 'rapid stateful read/write sequences + exhaustive single-write sweep against a reference address map', '', '', '§5 C06'),
 'C07': (False, 'frame-condition differential: full 64K snapshot before/after a generated write vs allowed-effect table', '', '', '§5 C07'),
 'C08': (False, 'exhaustive single writes / MBC1 register triples + rapid stateful sequences vs reference bank controllers with page signatures', '', '', '§5 C08'),
 'C09': (False, 'rapid stateful sequences against a reference cartridge-RAM cell store', '', '', '§5 C09'),
 'C10': (False, 'exhaustive one-step carry chain + rapid stateful histories against a reference RTC', '', '', '§5 C10'),
 'C11': (False, 'robustness fuzzing: rapid + native go fuzz of ROM images, exhaustive single writes, rapid programs; oracle = no panic after construction', '', '', '§5 C11'),
 'C12': (False, 'bounded-exhaustive operation sequences + rapid long schedules against a reference timer with don\'t-care sets', '', '', '§5 C12'),
 'C13': (False, 'rapid LCD on/off schedules compared cycle by cycle with a reference line/mode counter', '', '', '§5 C13'),
 'C14': (False, 'enumeration of STAT source x LYC + rapid schedules against reference request events', '', '', '§5 C14'),
 'C15': (False, 'rapid scenes against a reference renderer, pixel-exact', '', '', '§5 C15'),
 'C16': (False, 'enumeration of DMA source pages + rapid restarts/reads against a reference copy model', '', '', '§5 C16'),
 'C17': (False, 'rapid pointer-walking programs with OAM compared against a plain-memory model', '', '', '§5 C17'),
 'C18': (False, 'rapid stateful register write/power sequences against a mask/power reference model', '', '', '§5 C18'),
 'C19': (False, 'rapid schedules against a reference length/status model, cycle by cycle', '', '', '§5 C19'),
 'C20': (False, 'rapid register schedules with per-cycle sample counting, range/routing invariants and paired-run metamorphic relation', '', '', '§5 C20'),
 'C21': (False, 'enumeration of frequencies / NR43 values with step-count fit and LFSR recurrence/period oracle', '', '', '§5 C21'),
 'C22': (True, 'exhaustive breadth-first exploration of the reference controller state space + rapid random event sequences',
         'Every reachable state of the reference joypad model (576) under every press/release event and every JOYP write (272) is driven on the real controller through the address decoder and FF00 compared after every event: exhaustive for the model\'s state space, plus random sequences up to 200 events for hidden implementation state.',
         'Reference model written from Pan Docs; the implementation is assumed to have no hidden state that is only reachable by paths much longer than the BFS tree and the 200-event random sequences.', '§5 C22'),
 'C23': (False, 'rapid programs/write sequences with the serial writer transcript compared against the reference store sequence', '', '', '§5 C23'),
 'C24': (False, 'differential re-execution: same ROM/config/inputs twice in-process and once in a child process, digests compared', '', '', '§5 C24'),
 'C25': (False, 'rapid interleavings of several instances compared with solo runs', '', '', '§5 C25'),
 'C26': (False, 'differential runFrame vs documented stepping order on generated programs + deterministic cancellation points', '', '', '§5 C26'),
}

def main():
    hooks_commits = subprocess.run(['git', '-C', '/repo', 'log', '--format=%H', '--grep=^verif hooks'], stdout=subprocess.PIPE, text=True).stdout.split()
    checks, na = [], []
    for pid in sorted(T):
        built, tech, text, note, ref = T[pid]
        if not built:
            na.append({'property_id': pid, 'reason': 'check not built yet in this session (designed in DESIGN.md %s); not claimed until it exists and is silent on the unchanged tree' % ref})
            continue
        checks.append({
            'property_id': pid,
            'quick_cmd': './vcheck %s quick' % pid,
            'thorough_cmd': './vcheck %s thorough' % pid,
            'evidence_file': '/verif/evidence/%s.json' % pid,
            'replay_cmd_template': './vcheck replay {path}',
            'engine': 'vcheck',
            'level_claimed': {'category': 'exploration', 'text': text, 'design_ref': 'DESIGN.md ' + ref},
            'level_note': note,
            'technique': tech,
        })
    man = {
        'version': 1,
        'setup_cmd': './vcheck setup',
        'hooks': {
            'guard': 'verif',
            'enable': 'go test -tags verif (the harness module in /verif/harness replaces github.com/scottyw/tetromino with /repo and builds with -tags verif)',
            'baseline_off_cmd': 'cd /repo && GOFLAGS=-mod=mod GOPROXY=off GOSUMDB=off go test -json -vet=off -count=1 -timeout 25m ./... ; true',
            'source_commits': hooks_commits,
            'add_only': True,
        },
        'engines': [{'name': 'vcheck', 'path': '/verif/vcheck', 'serves_properties': [c['property_id'] for c in checks],
                     'kind_free_text': 'python3 driver that rebuilds the Go harness (pgregory.net/rapid v1.3.0 generators, exhaustive enumerators, reference models) against /repo with -tags verif, runs it in up to 16 shard processes, merges their reports into evidence and prints VIOLATION / KNOWN-FINDING lines'}],
        'checks': checks,
        'not_applicable': na,
        'notes': 'Exit 0 = held on everything explored; 1 = VIOLATION line printed; 2 = infrastructure failure (inconclusive). All checks honour VERIF_SEED and rebuild from /repo\'s working tree.',
    }
    json.dump(man, open(os.path.join(ROOT, 'MANIFEST.json'), 'w'), indent=1)
    print('claimed:', [c['property_id'] for c in checks])

main()
