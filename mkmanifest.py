#!/usr/bin/env python3
"""Regenerates MANIFEST.json from the table below (run after adding a check)."""
import json, os, subprocess
ROOT = os.path.dirname(os.path.abspath(__file__))

# id -> (built, technique, level text, level note, design ref)
T = {
 'C01': (True, 'exhaustive enumeration + rapid generation of single instructions against a reference SM83 interpreter', "All 8-bit ALU, CB, INC/DEC, accumulator/flag (incl. DAA), POP AF, 16-bit INC/DEC and (thorough) all 2^24 ADD SP,e / LD HL,SP+e input combinations are enumerated completely against an independent x/y/z-decoded reference interpreter; every other opcode is exercised with hundreds of thousands of rapid-generated register/flag/memory states with structured pointers, with a whole-memory shadow comparison for 'changes nothing else'.", "refcpu (the reference interpreter) is trusted; it was written from the opcode documentation in a different decomposition from tetromino's closure tables and agrees with the repository's daa.csv on all 2048 rows. Operands are restricted to plain memory (I/O semantics are other properties).", '§5 C01'),
 'C02': (True, 'enumeration of opcode x flag nibble and rapid programs against a reference cycle table', 'Every defined opcode x all 16 flag nibbles (both outcomes of every condition) x 64-1024 random states is timed between instruction boundaries against the reference cycle table; tens of thousands of generated programs are run in lock-step comparing the cycle count of every instruction; plus the blargg instr_timing verdict.', 'The cycle table in refcpu is typed in from the SM83 timing reference; STOP and HALT have no fixed length and are excluded.', '§5 C02'),
 'C03': (True, 'one-hot marker differential per machine cycle against a reference access schedule', 'For each of the 99 opcodes with a data access, rapid draws operand addresses/registers and a marker byte; one run per candidate machine cycle with one-hot operand values identifies the cycle of every read, per-cycle snapshots identify the cycle of every write; plus blargg mem_timing and mem_timing-2 verdicts.', "Immediate-operand fetch cycles are not asserted (the property is about data accesses); documented access cycles come from refcpu's access schedule.", '§5 C03'),
 'C04': (True, 'exhaustive IE x IF x IME enumeration + rapid interrupt programs in lock-step with a reference model', 'All 256 IE x 32 IF x 2 IME combinations at a boundary x 7 following instruction kinds are enumerated, and tens of thousands of generated EI/DI/RETI/IF/IE programs with requests raised at arbitrary machine cycles run in lock-step with a reference that models IME, the EI delay, priority, the 5-cycle dispatch, pushed address and IF clearing; plus 8 interrupt ROM verdicts.', "Where a higher-priority request arrives during the 5 dispatch cycles either choice of vector is accepted; instruction semantics are re-synchronised rather than judged (C01's business).", '§5 C04'),
 'C05': (True, 'enumeration of HALT contexts x following opcode x idle length against a reference model', 'HALT under IME {0,1} x request pending / arriving after up to K idle cycles x 5 sources x every defined opcode as the following instruction is enumerated; the halt bug is judged metamorphically (the implementation executing the duplicated byte from PC-1 must agree with its halt-bug run); generated programs mix HALT with EI/DI/IF writes and requests; plus 4 halt ROM verdicts.', 'Wake-up latency with IME=0 is accepted up to 2 cycles; how a CB prefix decodes under the halt bug is not asserted.', '§5 C05'),
 'C06': (False, 'rapid stateful read/write sequences + exhaustive single-write sweep against a reference address map', '', '', '§5 C06'),
 'C07': (False, 'frame-condition differential: full 64K snapshot before/after a generated write vs allowed-effect table', '', '', '§5 C07'),
 'C08': (False, 'exhaustive single writes / MBC1 register triples + rapid stateful sequences vs reference bank controllers with page signatures', '', '', '§5 C08'),
 'C09': (False, 'rapid stateful sequences against a reference cartridge-RAM cell store', '', '', '§5 C09'),
 'C10': (False, 'exhaustive one-step carry chain + rapid stateful histories against a reference RTC', '', '', '§5 C10'),
 'C11': (False, 'robustness fuzzing: rapid + native go fuzz of ROM images, exhaustive single writes, rapid programs; oracle = no panic after construction', '', '', '§5 C11'),
 'C12': (True, 'bounded-exhaustive operation sequences + rapid long schedules against a reference timer with don\'t-care sets', "Every sequence of 4 (thorough 5) machine cycles over 17 per-cycle write symbols from several hundred start states around each selected counter bit's edge and counter wrap is enumerated on a bare timer, and long rapid schedules run on a bare timer and through the address decoder + frame-loop wiring, compared after every write and tick with a candidate-set reference (DIV, TIMA, TMA, TAC, interrupt count).", "At most one write per machine cycle (as a CPU can issue); hidden edges within a cycle, increments coinciding with a reload/TIMA write and interrupts of cancelled overflows are don't-cares. The TLA+ model check mentioned in the quantifier is a different technique and is not done.", '§5 C12'),
 'C13': (False, 'rapid LCD on/off schedules compared cycle by cycle with a reference line/mode counter', '', '', '§5 C13'),
 'C14': (False, 'enumeration of STAT source x LYC + rapid schedules against reference request events', '', '', '§5 C14'),
 'C15': (False, 'rapid scenes against a reference renderer, pixel-exact', '', '', '§5 C15'),
 'C16': (False, 'enumeration of DMA source pages + rapid restarts/reads against a reference copy model', '', '', '§5 C16'),
 'C17': (False, 'rapid pointer-walking programs with OAM compared against a plain-memory model', '', '', '§5 C17'),
 'C18': (False, 'rapid stateful register write/power sequences against a mask/power reference model', '', '', '§5 C18'),
 'C19': (False, 'rapid schedules against a reference length/status model, cycle by cycle', '', '', '§5 C19'),
 'C20': (False, 'rapid register schedules with per-cycle sample counting, range/routing invariants and paired-run metamorphic relation', '', '', '§5 C20'),
 'C21': (False, 'enumeration of frequencies / NR43 values with step-count fit and LFSR recurrence/period oracle', '', '', '§5 C21'),
 'C22': (True, 'exhaustive breadth-first exploration of the reference controller state space + rapid random event sequences',
         'Every reachable state of the reference joypad model (576) under every press/release event and every JOYP write (272) is driven on the real controller through the address decoder and FF00 compared after every event: exhaustive for the model\'s state space, plus random sequences up to 200 events for hidden implementation state.',
         'Reference model written from Pan Docs; the implementation is assumed to have no hidden state that is only reachable by paths much longer than the BFS tree and the 200-event random sequences.', '§5 C22'),
 'C23': (False, 'rapid programs/write sequences with the serial writer transcript compared against the reference store sequence', '', '', '§5 C23'),
 'C24': (False, 'differential re-execution: same ROM/config/inputs twice in-process and once in a child process, digests compared', '', '', '§5 C24'),
 'C25': (False, 'rapid interleavings of several instances compared with solo runs', '', '', '§5 C25'),
 'C26': (False, 'differential runFrame vs documented stepping order on generated programs + deterministic cancellation points', '', '', '§5 C26'),
}

def main():
    hooks_commits = subprocess.run(['git', '-C', '/repo', 'log', '--format=%H', '--grep=^verif hooks'], stdout=subprocess.PIPE, text=True).stdout.split()
    checks, na = [], []
    for pid in sorted(T):
        built, tech, text, note, ref = T[pid]
        if not built:
            na.append({'property_id': pid, 'reason': 'check not built yet in this session (designed in DESIGN.md %s); not claimed until it exists and is silent on the unchanged tree' % ref})
            continue
        checks.append({
            'property_id': pid,
            'quick_cmd': './vcheck %s quick' % pid,
            'thorough_cmd': './vcheck %s thorough' % pid,
            'evidence_file': '/verif/evidence/%s.json' % pid,
            'replay_cmd_template': './vcheck replay {path}',
            'engine': 'vcheck',
            'level_claimed': {'category': 'exploration', 'text': text, 'design_ref': 'DESIGN.md ' + ref},
            'level_note': note,
            'technique': tech,
        })
    man = {
        'version': 1,
        'setup_cmd': './vcheck setup',
        'hooks': {
            'guard': 'verif',
            'enable': 'go test -tags verif (the harness module in /verif/harness replaces github.com/scottyw/tetromino with /repo and builds with -tags verif)',
            'baseline_off_cmd': 'cd /repo && GOFLAGS=-mod=mod GOPROXY=off GOSUMDB=off go test -json -vet=off -count=1 -timeout 25m ./... ; true',
            'source_commits': hooks_commits,
            'add_only': True,
        },
        'engines': [{'name': 'vcheck', 'path': '/verif/vcheck', 'serves_properties': [c['property_id'] for c in checks],
                     'kind_free_text': 'python3 driver that rebuilds the Go harness (pgregory.net/rapid v1.3.0 generators, exhaustive enumerators, reference models) against /repo with -tags verif, runs it in up to 16 shard processes, merges their reports into evidence and prints VIOLATION / KNOWN-FINDING lines'}],
        'checks': checks,
        'not_applicable': na,
        'notes': 'Exit 0 = held on everything explored; 1 = VIOLATION line printed; 2 = infrastructure failure (inconclusive). All checks honour VERIF_SEED and rebuild from /repo\'s working tree.',
    }
    json.dump(man, open(os.path.join(ROOT, 'MANIFEST.json'), 'w'), indent=1)
    print('claimed:', [c['property_id'] for c in checks])

main()
