#!/usr/bin/env python3
"""Re-generates the tables between the GENERATED RESULTS markers of DESIGN.md from mkresults.py's output."""
import os, subprocess
ROOT = os.path.dirname(os.path.abspath(__file__))
p = os.path.join(ROOT, 'DESIGN.md')
s = open(p).read()
B, E = '<!-- BEGIN GENERATED RESULTS (python3 mkresults.py) -->', '<!-- END GENERATED RESULTS -->'
b, e = s.index(B) + len(B), s.index(E)
head = s[b:e].split('### Hand-written mutants')[0]
tables = subprocess.run(['python3', os.path.join(ROOT, 'mkresults.py')], stdout=subprocess.PIPE, text=True, check=True).stdout
open(p, 'w').write(s[:b] + head + tables + '\n' + s[e:])
