#!/usr/bin/env python3
"""Prints the sensitivity tables of DESIGN.md §10 from mutants/results.json, mutants/mutants.json,
seeded/*/meta.json and seeded/RESULTS.json (markdown on stdout)."""
import json, os
ROOT = os.path.dirname(os.path.abspath(__file__))

def hand():
    ms = json.load(open(os.path.join(ROOT, 'mutants', 'mutants.json')))
    rs = {r['name']: r for r in json.load(open(os.path.join(ROOT, 'mutants', 'results.json')))}
    print('| hand-written mutant | file | outcome (quick tier) |')
    print('|---|---|---|')
    det = miss = nq = 0
    for m in ms:
        r = rs.get(m['name'])
        if not r:
            out = 'not run'
        elif r['status'] != 'ran':
            out = r['status']; nq += 1
        else:
            parts = []
            for p, v in r['results'].items():
                parts.append('%s %s' % (p, 'detected' if v['detected'] else 'MISSED (exit %d)' % v['exit']))
            out = '; '.join(parts)
            if any(v['detected'] for v in r['results'].values()):
                det += 1
            else:
                miss += 1
        print('| %s | %s | %s |' % (m['name'], m['file'].replace('gameboy/', ''), out))
    print('\n%d qualifying mutants detected by at least one targeted check, %d missed, %d not qualifying (caught by the pinned tests, not compiling, or pattern gone).\n' % (det, miss, nq))

def seeded():
    sd = os.path.join(ROOT, 'seeded')
    res = json.load(open(os.path.join(sd, 'RESULTS.json')))
    print('| id | breaks | what the change does / what it needs to manifest | demo fails with / passes without | pinned tests | caught by (quick) |')
    print('|---|---|---|---|---|---|')
    det = miss = 0
    for sid in sorted(res):
        mp = os.path.join(sd, sid, 'meta.json')
        if not os.path.exists(mp):
            continue
        m = json.load(open(mp))
        r = res[sid].get('quick', {})
        checks = r.get('checks', {})
        caught = ', '.join('%s' % p for p, v in checks.items() if v == 'DETECTED')
        missed = ', '.join('%s' % p for p, v in checks.items() if v != 'DETECTED')
        cell = caught or '—'
        if missed:
            cell += ' (not by %s)' % missed
        th = res[sid].get('thorough', {}).get('checks', {})
        if th:
            cell += '; thorough: ' + ', '.join('%s %s' % (p, 'caught' if v == 'DETECTED' else 'missed') for p, v in th.items())
        if caught:
            det += 1
        else:
            miss += 1
        summ = (m.get('summary') or '').replace('|', '/').replace('\n', ' ')
        need = (m.get('needs_to_manifest') or '').replace('|', '/').replace('\n', ' ')
        if len(summ) > 260: summ = summ[:257] + '...'
        if len(need) > 260: need = need[:257] + '...'
        demo = 'yes / yes' if (r.get('demo_with') or '').startswith('fails') and r.get('demo_without') == 'pass' else '%s / %s' % (r.get('demo_with'), r.get('demo_without'))
        print('| %s | %s | %s **Needs:** %s | %s | %s | %s |' % (sid, m['property'], summ, need, demo, r.get('pinned'), cell))
    print('\n%d seeded changes caught by a quick check of the property they break (or of a neighbouring property), %d not caught.\n' % (det, miss))

if __name__ == '__main__':
    print('### Hand-written mutants\n'); hand()
    print('### Changes seeded by independent sub-agents\n'); seeded()
