package checks

import (
	"bytes"
	"context"
	"encoding/json"
	"fmt"
	"os"
	"sync"
	"testing"

	"pgregory.net/rapid"

	"verifharness/machine"
	"verifharness/refcpu"
	"verifharness/vf"
)

// C25 — emulator instances in one process are independent. Two or three
// instances over different programs/ROMs are created in a drawn order and
// stepped in a drawn interleaving (cycle-granular on machine.M, which wires
// the public constructors exactly as gameboy.New does; frame-granular and
// concurrently through gameboy.New + runFrame). Oracle: the complete
// observable state of each instance at each of its checkpoints equals that
// of the same instance run alone. Every instance is peeked at each of its
// instruction boundaries; a deliberate stop (undefined opcode) that the solo
// run does not make at the same cycle is itself a divergence, and a shared
// dispatch table can never take the process down.

type c25Slice struct {
	Inst   int `json:"i"`
	Cycles int `json:"n"`
}

type c25Case struct {
	Insts []sysCase  `json:"instances"` // Video is ignored at cycle granularity
	Order []int      `json:"order"`     // creation order
	Sched []c25Slice `json:"schedule"`
	Lazy  []bool     `json:"lazy,omitempty"` // instance i is created only just before its first slice, while the others are already running
	// Pristine: the solo references are computed in a fresh child process per instance (one case in three);
	// otherwise in this process, before the instances that run together are created.
	Pristine bool `json:"pristine,omitempty"`
}

type c25Inst struct {
	m       *machine.M
	ser     bytes.Buffer
	cycles  int
	stopped int // cycle at which an undefined opcode was met (-1: not)
	rej     bool
}

func c25New(c sysCase) (in *c25Inst) {
	in = &c25Inst{stopped: -1}
	rom, err := c.rom()
	if err != nil {
		in.rej = true
		return
	}
	defer func() {
		if r := recover(); r != nil {
			in.rej = true
			in.m = nil
		}
	}()
	in.m = machine.NewCfg(rom, &in.ser, false, c.DebugLCD)
	return
}

// run advances the instance n cycles (or to its deliberate stop).
func (in *c25Inst) run(n int) {
	if in.rej {
		return
	}
	m := in.m
	for k := 0; k < n && in.stopped < 0; k++ {
		if m.CPU.VerifAtBoundary() && !m.CPU.VerifHalted() && !m.CPU.VerifStopped() {
			if refcpu.IsUndefined(m.Mp.Read(m.CPU.VerifGet().PC)) {
				in.stopped = in.cycles
				return
			}
		}
		m.Cycle()
		in.cycles++
	}
}

func (in *c25Inst) snap() []sysSection {
	if in.rej {
		return nil
	}
	s := sysSnapshot(sysPartsOfM(in.m))
	s = append(s, sysSection{"serial", append([]byte(nil), in.ser.Bytes()...)},
		sysSection{"cycles,stopped-at", []byte(fmt.Sprintf("%d,%d", in.cycles, in.stopped))})
	return s
}

type c25Info struct {
	Switches int
	Live     int
}

// c25SoloSpec asks a fresh process for the digests of one instance run alone.
type c25SoloSpec struct {
	Inst   sysCase `json:"instance"`
	Slices []int   `json:"slices"`
}

func c25SoloDigests(sp c25SoloSpec) []string {
	in := c25New(sp.Inst)
	out := make([]string, 0, len(sp.Slices))
	for _, n := range sp.Slices {
		in.run(n)
		out = append(out, sysDigest(in.snap()))
	}
	return out
}

// TestC25Solo is the child side: one instance, alone in a pristine process.
func TestC25Solo(t *testing.T) {
	path := os.Getenv("VERIF_C25_SOLO")
	if path == "" {
		t.Skip("not a child")
	}
	b, err := os.ReadFile(path)
	if err != nil {
		t.Fatal(err)
	}
	var sp c25SoloSpec
	if err := json.Unmarshal(b, &sp); err != nil {
		t.Fatal(err)
	}
	sysChildOut(path, c25SoloDigests(sp))
}

func c25Run(c c25Case) (info c25Info, sig string, err error) {
	defer vf.Recover(&sig, &err)
	n := len(c.Insts)
	// The reference: each instance alone in a process of its own (so that state cached per process by an
	// earlier instance cannot leak into it), digests at the cumulative cycle counts of its slices.
	pristine := make([][]string, n)
	perr := make([]error, n)
	var wg sync.WaitGroup
	for i := 0; i < n; i++ {
		sp := c25SoloSpec{Inst: c.Insts[i]}
		for _, sl := range c.Sched {
			if sl.Inst == i {
				sp.Slices = append(sp.Slices, sl.Cycles)
			}
		}
		if len(sp.Slices) == 0 {
			continue
		}
		if os.Getenv("VERIF_C25_INPROC") != "" || !c.Pristine {
			pristine[i] = c25SoloDigests(sp)
			continue
		}
		wg.Add(1)
		go func(i int, sp c25SoloSpec) {
			defer wg.Done()
			perr[i] = sysSpawn("TestC25Solo", "VERIF_C25_SOLO", sp, &pristine[i])
		}(i, sp)
	}
	wg.Wait()
	for i := range perr {
		if perr[i] != nil {
			return info, "", nil // the solo run itself did not survive (C11's business): nothing to compare
		}
	}
	// a solo run in this process as well, only to name the difference when there is one
	solo := make([][][]sysSection, n)
	for i := 0; i < n; i++ {
		in := c25New(c.Insts[i])
		for _, sl := range c.Sched {
			if sl.Inst == i {
				in.run(sl.Cycles)
				solo[i] = append(solo[i], in.snap())
			}
		}
		if !in.rej {
			info.Live++
		}
	}
	// together
	insts := make([]*c25Inst, n)
	lazy := func(i int) bool { return i < len(c.Lazy) && c.Lazy[i] }
	for _, i := range c.Order {
		if !lazy(i) {
			insts[i] = c25New(c.Insts[i])
		}
	}
	for i := range insts {
		if insts[i] == nil && !lazy(i) {
			insts[i] = c25New(c.Insts[i])
		}
	}
	seen := make([]int, n)
	last := -1
	for k, sl := range c.Sched {
		i := sl.Inst
		if i != last {
			info.Switches++
			last = i
		}
		if insts[i] == nil {
			insts[i] = c25New(c.Insts[i]) // created while the others are in the middle of their runs
		}
		insts[i].run(sl.Cycles)
		snap := insts[i].snap()
		if sysDigest(snap) != pristine[i][seen[i]] {
			d := sysDiff(solo[i][seen[i]], snap)
			if d == "" {
				d = "a solo run made in this process, after other instances had existed in it, deviates in the same way: state cached per process"
			}
			return info, "instance-differs-from-solo", fmt.Errorf("instance %d of %d (created %v) after schedule step %d (%d cycles of its own): state differs from the same instance run alone in a process of its own: %s [alone vs together]", i, n, c.Order, k, insts[i].cycles, d)
		}
		seen[i]++
		// the instances that did not run must not have moved either
		for j := range insts {
			if j != i && seen[j] > 0 && insts[j] != nil {
				if sysDigest(insts[j].snap()) != pristine[j][seen[j]-1] {
					return info, "idle-instance-changed", fmt.Errorf("instance %d changed while only instance %d was running (schedule step %d): %s [before vs after]", j, i, k, sysDiff(solo[j][seen[j]-1], insts[j].snap()))
				}
			}
		}
	}
	return info, "", nil
}

// ---------------------------------------------------------------------------
// frame granularity through gameboy.New + runFrame, sequentially interleaved or concurrent

type c25Frames struct {
	Insts      []sysCase `json:"instances"`
	Order      []int     `json:"order"`
	Turns      []int     `json:"turns"` // instance index per frame turn (sequential mode)
	Concurrent bool      `json:"concurrent"`
}

func c25RunFrames(c c25Frames) (sig string, err error) {
	defer vf.Recover(&sig, &err)
	n := len(c.Insts)
	want := make([]sysTrace, n)
	cases := make([]sysCase, n)
	for i := range c.Insts {
		cas := c.Insts[i]
		cas.Video = false
		rom, rerr := cas.rom()
		if rerr != nil {
			return "", nil
		}
		frames := cas.Frames
		if !c.Concurrent {
			frames = 0
			for _, t := range c.Turns {
				if t == i {
					frames++
				}
			}
		}
		ok, perr := sysPreflight(rom, frames, nil)
		if perr != nil {
			return "", nil
		}
		cas.Frames = ok
		cases[i] = cas
		if os.Getenv("VERIF_RACE") != "" {
			want[i] = sysRunGB(cas, nil)
		} else if w, werr := sysChild(cas); werr == nil {
			want[i] = w // alone in a process of its own
		} else {
			return "", nil
		}
		if want[i].Err != "" {
			return "", nil
		}
	}
	// together: in a child process, so that a derailed instance that reaches an
	// undefined opcode (os.Exit in the code under test) cannot take the check down
	var got []sysTrace
	spec := c25Together{Cases: cases, Order: c.Order, Turns: c.Turns, Concurrent: c.Concurrent}
	if os.Getenv("VERIF_RACE") != "" || os.Getenv("VERIF_C25_SPEC") != "" {
		got = c25RunTogether(spec)
	} else if serr := sysSpawn("TestC25Child", "VERIF_C25_SPEC", spec, &got); serr != nil {
		return "process-lost-together", fmt.Errorf("every instance completes its frames alone, but run together the process did not survive: %v", serr)
	}
	if len(got) != n {
		return "", nil // an instance could not be constructed
	}
	for i := 0; i < n; i++ {
		if d := sysTraceDiff(want[i], got[i]); d != "" {
			mode := "interleaved frame by frame"
			if c.Concurrent {
				mode = "concurrently"
			}
			return "instance-differs-from-solo", fmt.Errorf("instance %d of %d run %s with the others differs from the same instance run alone: %s [alone vs together]", i, n, mode, d)
		}
	}
	return "", nil
}

type c25Together struct {
	Cases      []sysCase `json:"cases"`
	Order      []int     `json:"order"`
	Turns      []int     `json:"turns"`
	Concurrent bool      `json:"concurrent"`
}

func c25RunTogether(c c25Together) []sysTrace {
	n := len(c.Cases)
	gbs := make([]*sysGB, n)
	for _, i := range c.Order {
		rom, _ := c.Cases[i].rom()
		g, gerr := sysNewGBCfg(rom, false, c.Cases[i].Audio, nil, c.Cases[i].DebugLCD)
		if gerr != nil {
			return nil
		}
		g.consume()
		gbs[i] = g
	}
	got := make([]sysTrace, n)
	ctx := context.Background()
	step := func(i int) {
		gbs[i].G.VerifRunFrame(ctx)
		got[i].Frames = append(got[i].Frames, sysDigest(sysSnapshot(sysPartsOfGB(gbs[i].G))))
	}
	if c.Concurrent {
		var wg sync.WaitGroup
		for i := 0; i < n; i++ {
			wg.Add(1)
			go func(i int) {
				defer wg.Done()
				for f := 0; f < c.Cases[i].Frames; f++ {
					step(i)
				}
			}(i)
		}
		wg.Wait()
	} else {
		for _, i := range c.Turns {
			if len(got[i].Frames) < c.Cases[i].Frames {
				step(i)
			}
		}
	}
	for i := 0; i < n; i++ {
		got[i].Final = sysDigest(sysSnapshot(sysPartsOfGB(gbs[i].G)))
		got[i].Serial = sysSerialSig(gbs[i].Serial.Bytes())
		s := gbs[i].finish()
		got[i].Samples, got[i].NSample = sysHashFloats(s), len(s)
	}
	return got
}

// TestC25Child is the child side of the frame-granular mode.
func TestC25Child(t *testing.T) {
	path := os.Getenv("VERIF_C25_SPEC")
	if path == "" {
		t.Skip("not a child")
	}
	b, err := os.ReadFile(path)
	if err != nil {
		t.Fatal(err)
	}
	var c c25Together
	if err := json.Unmarshal(b, &c); err != nil {
		t.Fatal(err)
	}
	sysChildOut(path, c25RunTogether(c))
}

func init() {
	vf.RegisterReplay("C25/interleave", func(raw json.RawMessage) (string, error) {
		var c c25Case
		if err := json.Unmarshal(raw, &c); err != nil {
			return "", err
		}
		_, sig, err := c25Run(c)
		return sig, err
	})
	vf.RegisterReplay("C25/frames", func(raw json.RawMessage) (string, error) {
		var c c25Frames
		if err := json.Unmarshal(raw, &c); err != nil {
			return "", err
		}
		return c25RunFrames(c)
	})
}

func c25GenInst(rt *rapid.T, roms []string) sysCase {
	var cas sysCase
	if len(roms) > 0 && rapid.IntRange(0, 3).Draw(rt, "kind") == 0 {
		cas.File = rapid.SampledFrom(roms).Draw(rt, "rom")
	} else {
		s := c11Spec{CartType: rapid.SampledFrom(c26CartTypes).Draw(rt, "type"), RomSize: uint8(rapid.IntRange(0, 1).Draw(rt, "romsize")), RamSize: rapid.SampledFrom([]uint8{0, 0, 0, 1, 2, 3}).Draw(rt, "ram"), Len: -1, Far: true}
		s.Program = c11GenProgram(rt)
		s.Head = make([]byte, 0x68)
		for v := 0x40; v <= 0x60; v += 8 {
			s.Head[v] = 0xd9
		}
		cas.Image = &s
		if rapid.IntRange(0, 3).Draw(rt, "scene") == 0 {
			s.Program = c25SceneProgram(rt)
		}
	}
	// the LCD debug option belongs to the instance configured with it and to no other
	cas.DebugLCD = rapid.IntRange(0, 3).Draw(rt, "debug-lcd") == 0
	return cas
}

// c25SceneProgram: a program that puts objects and the window on the screen (tile data, four OAM entries,
// palettes, window position, LCDC with objects and window enabled) and then idles - the picture such an instance
// produces exercises every colour path of the renderer.
func c25SceneProgram(rt *rapid.T) []byte {
	b := rapid.Byte()
	p := []byte{0x3e, 0x00, 0xe0, 0x40} // LCD off
	// tiles 0-3: 64 bytes of drawn data
	p = append(p, 0x21, 0x00, 0x80) // LD HL,8000
	for _, v := range rapid.SliceOfN(b, 8, 8).Draw(rt, "tile-bytes") {
		for k := 0; k < 8; k++ {
			p = append(p, 0x3e, v+uint8(37*k)|1, 0x22) // LD A,v ; LD (HL+),A
		}
	}
	p = append(p, 0x21, 0x00, 0xfe) // LD HL,FE00
	for i := 0; i < 4; i++ {
		y := uint8(rapid.IntRange(8, 150).Draw(rt, "oy"))
		x := uint8(rapid.IntRange(1, 166).Draw(rt, "ox"))
		for _, v := range []uint8{y, x, uint8(rapid.IntRange(0, 3).Draw(rt, "otile")), b.Draw(rt, "oattr") & 0xf0} {
			p = append(p, 0x3e, v, 0x22)
		}
	}
	for _, w := range [][2]uint8{{0x47, b.Draw(rt, "bgp")}, {0x48, b.Draw(rt, "obp0")}, {0x49, b.Draw(rt, "obp1")}, {0x42, b.Draw(rt, "scy")}, {0x43, b.Draw(rt, "scx")},
		{0x4a, uint8(rapid.IntRange(0, 143).Draw(rt, "wy"))}, {0x4b, uint8(rapid.IntRange(0, 166).Draw(rt, "wx"))}, {0x40, 0x83 | b.Draw(rt, "lcdc")&0x7c | 0x20}} {
		p = append(p, 0x3e, w[1], 0xe0, w[0])
	}
	return append(p, 0x18, 0xfe) // JR -2
}

func c25GenOrder(rt *rapid.T, n int) []int {
	return rapid.Permutation(func() []int {
		o := make([]int, n)
		for i := range o {
			o[i] = i
		}
		return o
	}()).Draw(rt, "order")
}

func TestC25(t *testing.T) {
	c := vf.New(t, "C25", "rapid cases of 2-3 instances (generated register-hammering programs on 7 cartridge types, or ROMs of the test corpus) created in a drawn order; "+
		"(interleave) stepped on machine.M in a drawn schedule of 2-40 slices of 1-3000 machine cycles, each instance created either up front (in the drawn order) or only just before its first slice while the others are already running, every instance compared after each of its slices with the same instance run alone (in one case in three: alone in a fresh process of its own, so that state cached per process cannot contaminate the reference), and the idle instances checked for not having moved; "+
		"(frames) real gameboy.New instances stepped frame by frame through runFrame in a drawn turn order, and (concurrent) each in its own goroutine, per-frame digests, samples and serial output compared with the solo run; thorough also runs the concurrent mode under the race detector. "+
		"Non-trivial: at least two instances were accepted and the schedule switches instance at least twice. Distinct = hash of the case.")
	defer c.Flush()
	c.RunReplays()
	roms := c24Corpus()

	c.Rapid("interleave", 2400, 30000, func(rt *rapid.T) {
		n := rapid.IntRange(2, 3).Draw(rt, "n")
		var cas c25Case
		for i := 0; i < n; i++ {
			cas.Insts = append(cas.Insts, c25GenInst(rt, roms))
		}
		cas.Order = c25GenOrder(rt, n)
		cas.Sched = rapid.SliceOfN(rapid.Custom(func(rt *rapid.T) c25Slice {
			cy := rapid.IntRange(1, 40).Draw(rt, "cycles")
			if rapid.IntRange(0, 2).Draw(rt, "long") == 0 {
				cy = rapid.IntRange(41, 3000).Draw(rt, "cycles-long")
			}
			return c25Slice{Inst: rapid.IntRange(0, n-1).Draw(rt, "inst"), Cycles: cy}
		}), 2, 40).Draw(rt, "schedule")
		cas.Lazy = rapid.SliceOfN(rapid.Bool(), n, n).Draw(rt, "lazy")
		cas.Pristine = rapid.IntRange(0, 2).Draw(rt, "pristine") == 0
		info, sig, err := c25Run(cas)
		class := fmt.Sprintf("interleave-%d-instances", n)
		if cas.Pristine {
			c.Class("interleave-solo-reference-in-pristine-process", 1)
		}
		for _, l := range cas.Lazy {
			if l {
				c.Class("interleave-instance-created-while-others-run", 1)
				break
			}
		}
		c.Case(class, vf.Hash(cas), info.Live >= 2 && info.Switches >= 3, func() interface{} { return cas })
		if err != nil {
			if !c.Fail("interleave", sig, err.Error(), cas) {
				rt.Fatalf("%v", err)
			}
		}
	})

	c.Rapid("frames", 192, 3000, func(rt *rapid.T) {
		n := rapid.IntRange(2, 3).Draw(rt, "n")
		cas := c25Frames{Concurrent: rapid.Bool().Draw(rt, "concurrent")}
		for i := 0; i < n; i++ {
			in := c25GenInst(rt, roms)
			in.Audio = rapid.IntRange(0, 2).Draw(rt, "audio") == 0
			in.Frames = rapid.IntRange(1, 12).Draw(rt, "frames")
			cas.Insts = append(cas.Insts, in)
		}
		cas.Order = c25GenOrder(rt, n)
		cas.Turns = rapid.SliceOfN(rapid.IntRange(0, n-1), 2, 30).Draw(rt, "turns")
		class := "frames-sequential"
		if cas.Concurrent {
			class = "frames-concurrent"
		}
		c.Case(class, vf.Hash(cas), true, func() interface{} { return cas })
		sig, err := c25RunFrames(cas)
		if err != nil {
			if !c.Fail("frames", sig, err.Error(), cas) {
				rt.Fatalf("%v", err)
			}
		}
	})
}

// TestC25Race is the concurrent mode alone, for a binary built with -race
// (thorough tier): the race detector turns any sharing between instances
// that the runtime happens to interleave into a failure.
func TestC25Race(t *testing.T) {
	if os.Getenv("VERIF_RACE") == "" {
		t.Skip("only in the race-detector binary")
	}
	c := vf.New(t, "C25", "concurrent instances under the race detector")
	defer c.Flush()
	roms := c24Corpus()
	c.Rapid("race", 60, 400, func(rt *rapid.T) {
		n := rapid.IntRange(2, 4).Draw(rt, "n")
		cas := c25Frames{Concurrent: true}
		for i := 0; i < n; i++ {
			in := c25GenInst(rt, roms)
			in.Audio = rapid.IntRange(0, 2).Draw(rt, "audio") == 0
			in.Frames = rapid.IntRange(1, 6).Draw(rt, "frames")
			cas.Insts = append(cas.Insts, in)
		}
		cas.Order = c25GenOrder(rt, n)
		c.Case("race-concurrent", vf.Hash(cas), true, func() interface{} { return cas })
		// the race detector halts the process at the first report: leave the case behind for the driver
		if b, jerr := json.Marshal(map[string]interface{}{"property": "C25", "check": "frames", "sig": "data-race-between-instances", "msg": "case running when the race detector fired", "case": cas}); jerr == nil {
			os.WriteFile(c.Env.WorkDir+"/race-current.json", b, 0o644)
		}
		sig, err := c25RunFrames(cas)
		if err != nil {
			if !c.Fail("frames", sig, err.Error(), cas) {
				rt.Fatalf("%v", err)
			}
		}
	})
}
