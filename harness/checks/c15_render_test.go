package checks

import (
	"encoding/hex"
	"encoding/json"
	"flag"
	"fmt"
	"image/color"
	"sort"
	"strings"
	"sync"
	"testing"

	"pgregory.net/rapid"

	"verifharness/machine"
	"verifharness/vf"
)

// C15 — rendered frames equal the DMG composition of VRAM, OAM and registers.
//
// Reference renderer (Pan Docs "Tile Data", "Tile Maps", "OAM", "LCDC",
// "Palettes", "Scrolling"): a pure function scene -> 160x144 shade indices.
//   tile row = two bytes; colour id of column c = bit(7-c) of the first byte
//   (low plane) + 2 * bit(7-c) of the second byte (high plane);
//   LCDC.4 = 1: tile n at 8000+16n; LCDC.4 = 0: tile n at 9000+16*int8(n);
//   background: map LCDC.3 (9800/9C00), pixel ((x+SCX)&255, (y+SCY)&255);
//   window (LCDC.5): map LCDC.6, covers x >= WX-7, y >= WY, pixel (x-(WX-7), y-WY);
//   objects (LCDC.1), 8x8: top-left (X-8, Y-16), tile at 8000+16n, attr bit 7
//   behind BG colours 1-3, bit 6 Y flip, bit 5 X flip, bit 4 palette OBP1;
//   priority: smaller X first, then earlier in OAM; the first OPAQUE pixel in
//   priority order is the object pixel; it is shown unless bit 7 is set and the
//   BG/window colour id is non-zero; at most 10 objects per line (first 10 in OAM);
//   shade = (palette >> 2*id) & 3.
// The RGBA value of each shade is calibrated on four flat scenes.

type c15Obj struct {
	Y    uint8 `json:"y"`
	X    uint8 `json:"x"`
	Tile uint8 `json:"t"`
	Attr uint8 `json:"a"`
}

type c15Tile struct {
	N int    `json:"n"` // tile 0..383 (8000 + 16n)
	D string `json:"d"` // 16 bytes, hex
}

type c15Cell struct {
	M int   `json:"m"` // map 0 (9800) or 1 (9C00)
	P int   `json:"p"` // cell 0..1023
	T uint8 `json:"t"`
}

// c15Scene is a constant scene. Tile data and maps are a seeded fill plus
// explicit overrides, so that cases stay small and shrink to readable ones.
type c15Scene struct {
	LCDC     uint8     `json:"lcdc"` // bits 7 and 0 set, bit 2 clear
	SCX      uint8     `json:"scx"`
	SCY      uint8     `json:"scy"`
	WX       uint8     `json:"wx"` // 7..166
	WY       uint8     `json:"wy"`
	BGP      uint8     `json:"bgp"`
	OBP0     uint8     `json:"obp0"`
	OBP1     uint8     `json:"obp1"`
	TileFill int       `json:"tilefill"` // 0 zero, 1 planes equal (ids 0/3), 2 low plane only (0/1), 3 high plane only (0/2), 4 random, 5 mixed per tile
	TileSeed uint32    `json:"tileseed"`
	Tiles    []c15Tile `json:"tiles,omitempty"`
	MapFill  int       `json:"mapfill"` // 0 zero, 1 random, 2 counting
	MapSeed  uint32    `json:"mapseed"`
	Cells    []c15Cell `json:"cells,omitempty"`
	Objs     []c15Obj  `json:"objs,omitempty"` // OAM order; the remaining entries are zero (hidden)
	// PreOn > 0: the LCD first shows the scene for PreOn machine cycles, is switched off and on again, and only
	// then the judged frames run - nothing of the interrupted frame may leak into them. Frames: how many frames
	// run after the (last) switch-on before the image is taken (0 = 3).
	PreOn  int `json:"pre_on,omitempty"`
	Frames int `json:"frames,omitempty"`
}

type c15Rand struct{ s uint64 }

func (r *c15Rand) next() uint64 {
	r.s += 0x9e3779b97f4a7c15
	z := r.s
	z = (z ^ (z >> 30)) * 0xbf58476d1ce4e5b9
	z = (z ^ (z >> 27)) * 0x94d049bb133111eb
	return z ^ (z >> 31)
}
func (r *c15Rand) byte() uint8 { return uint8(r.next() >> 24) }

// c15Flat is the scene as the hardware sees it.
type c15Flat struct {
	vram                                    [0x2000]uint8
	oam                                     [160]uint8
	lcdc, scx, scy, wx, wy, bgp, obp0, obp1 uint8
	preOn, frames                           int
}

func c15Validate(s *c15Scene) error {
	if s.LCDC&0x81 != 0x81 || s.LCDC&0x04 != 0 {
		return fmt.Errorf("LCDC %02x: LCD and BG must be on, objects 8x8", s.LCDC)
	}
	if s.WX < 7 || s.WX > 166 {
		return fmt.Errorf("WX %d outside 7..166", s.WX)
	}
	if len(s.Objs) > 40 {
		return fmt.Errorf("%d objects", len(s.Objs))
	}
	if s.PreOn < 0 || s.PreOn > 3*c13Frame || s.Frames < 0 || s.Frames > 70000 {
		return fmt.Errorf("pre_on %d / frames %d", s.PreOn, s.Frames)
	}
	var cover [144]int
	for i, o := range s.Objs {
		if i > 0 && o.X < s.Objs[i-1].X {
			return fmt.Errorf("objects not ordered by X at OAM index %d", i)
		}
		for ly := int(o.Y) - 16; ly < int(o.Y)-8; ly++ {
			if ly >= 0 && ly < 144 {
				cover[ly]++
				if cover[ly] > 10 {
					return fmt.Errorf("more than 10 objects cover line %d", ly)
				}
			}
		}
	}
	if s.TileFill < 0 || s.TileFill > 5 || s.MapFill < 0 || s.MapFill > 2 {
		return fmt.Errorf("unknown fill mode")
	}
	for _, t := range s.Tiles {
		if t.N < 0 || t.N > 383 || len(t.D) != 32 {
			return fmt.Errorf("bad tile override %+v", t)
		}
		if _, err := hex.DecodeString(t.D); err != nil {
			return fmt.Errorf("bad tile override %+v", t)
		}
	}
	for _, c := range s.Cells {
		if c.M < 0 || c.M > 1 || c.P < 0 || c.P > 1023 {
			return fmt.Errorf("bad map override %+v", c)
		}
	}
	return nil
}

func c15Build(s *c15Scene) *c15Flat {
	f := &c15Flat{lcdc: s.LCDC, scx: s.SCX, scy: s.SCY, wx: s.WX, wy: s.WY, bgp: s.BGP, obp0: s.OBP0, obp1: s.OBP1, preOn: s.PreOn, frames: s.Frames}
	r := &c15Rand{s: uint64(s.TileSeed)}
	for t := 0; t < 384; t++ {
		mode := s.TileFill
		solid := -1
		if mode == 5 {
			k := int(r.byte()) % 8
			switch {
			case k < 4:
				mode = 1 + k
			default:
				mode, solid = 0, k-4
			}
		}
		for row := 0; row < 8; row++ {
			a, b := r.byte(), r.byte()
			var lo, hi uint8
			switch mode {
			case 1:
				lo, hi = a, a
			case 2:
				lo = a
			case 3:
				hi = a
			case 4:
				lo, hi = a, b
			}
			if solid >= 0 {
				lo, hi = uint8(-(solid & 1)), uint8(-(solid >> 1 & 1))
			}
			f.vram[t*16+row*2], f.vram[t*16+row*2+1] = lo, hi
		}
	}
	for _, t := range s.Tiles {
		d, _ := hex.DecodeString(t.D)
		copy(f.vram[t.N*16:t.N*16+16], d)
	}
	r = &c15Rand{s: uint64(s.MapSeed) ^ 0x5555}
	for i := 0; i < 0x800; i++ {
		switch s.MapFill {
		case 1:
			f.vram[0x1800+i] = r.byte()
		case 2:
			f.vram[0x1800+i] = uint8(i) + uint8(s.MapSeed)
		}
	}
	for _, c := range s.Cells {
		f.vram[0x1800+c.M*0x400+c.P] = c.T
	}
	for i, o := range s.Objs {
		f.oam[i*4], f.oam[i*4+1], f.oam[i*4+2], f.oam[i*4+3] = o.Y, o.X, o.Tile, o.Attr
	}
	return f
}

// Deviations the diagnosis can toggle in the reference to name a root cause.
const (
	c15DevSwap12  = 1 << iota // colour ids 1 and 2 exchanged when decoding tile data
	c15DevTopDrop             // objects with Y < 16 (crossing the top edge) are not drawn
	c15DevPalBit3             // object palette selected by attribute bit 3 instead of bit 4
)

var c15DevNames = []struct {
	bit  int
	name string
}{
	{c15DevSwap12, "tile-colour-ids-1-2-swapped"},
	{c15DevTopDrop, "object-top-edge-hidden"},
	{c15DevPalBit3, "object-palette-attr-bit3"},
}

const (
	c15LayerBG = iota
	c15LayerWindow
	c15LayerObject
	c15LayerBGOverObject // object pixel hidden by its BG-priority bit
)

var c15LayerNames = []string{"background", "window", "object", "background/window over a behind-BG object"}

type c15Stats struct {
	BGIDs           [4]int // pixels per BG/window colour id
	ObjPixels       int
	WindowPixels    int
	BehindHidden    int // object pixel suppressed by BG priority
	BehindShown     int // behind-BG object shown over colour 0
	Overlap         int // pixels covered by >= 2 objects
	TransparentPass int // pixels where a higher-priority object was transparent and a lower one showed
	OBP1Pixels      int
	FlipX, FlipY    int // visible objects with the flip
	ClipL, ClipR    int // visible objects crossing the left / right edge
	ClipT, ClipB    int
	NegTile         int // pixels whose BG/window tile was addressed with a negative index
	MaxPerLine      int
	VisibleObjs     int
}

type c15Image struct {
	shade [144][160]uint8
	layer [144][160]uint8
	obj   [144][160]int8 // winning OAM index or -1
}

func c15TileID(v *[0x2000]uint8, base int, x, y int, dev int) uint8 {
	lo := v[base+y*2] >> uint(7-x) & 1
	hi := v[base+y*2+1] >> uint(7-x) & 1
	if dev&c15DevSwap12 != 0 {
		lo, hi = hi, lo
	}
	return hi<<1 | lo
}

func c15Render(f *c15Flat, dev int, st *c15Stats) *c15Image {
	img := &c15Image{}
	shade := func(p, id uint8) uint8 { return p >> (2 * id) & 3 }
	visible := map[int]bool{}
	for y := 0; y < 144; y++ {
		// OAM scan: first 10 objects in OAM order whose rows include y
		var line []int
		for i := 0; i < 40 && len(line) < 10; i++ {
			top := int(f.oam[i*4]) - 16
			if dev&c15DevTopDrop != 0 && f.oam[i*4] < 16 {
				continue
			}
			if y >= top && y < top+8 {
				line = append(line, i)
			}
		}
		if st != nil && len(line) > st.MaxPerLine {
			st.MaxPerLine = len(line)
		}
		// priority: smaller X, then OAM index
		sort.SliceStable(line, func(a, b int) bool { return f.oam[line[a]*4+1] < f.oam[line[b]*4+1] })
		for x := 0; x < 160; x++ {
			var bgid uint8
			layer := uint8(c15LayerBG)
			var mapBase, px, py int
			if f.lcdc&0x20 != 0 && y >= int(f.wy) && x >= int(f.wx)-7 {
				layer = c15LayerWindow
				mapBase = 0x1800
				if f.lcdc&0x40 != 0 {
					mapBase = 0x1c00
				}
				px, py = x-(int(f.wx)-7), y-int(f.wy)
			} else {
				mapBase = 0x1800
				if f.lcdc&0x08 != 0 {
					mapBase = 0x1c00
				}
				px, py = (x+int(f.scx))&255, (y+int(f.scy))&255
			}
			tn := f.vram[mapBase+(py/8)*32+px/8]
			base := int(tn) * 16
			if f.lcdc&0x10 == 0 {
				base = 0x1000 + int(int8(tn))*16
				if st != nil && tn >= 128 {
					st.NegTile++
				}
			}
			bgid = c15TileID(&f.vram, base, px%8, py%8, dev)
			out := shade(f.bgp, bgid)
			win := int8(-1)
			if f.lcdc&0x02 != 0 {
				covering := 0
				passed := false
				for _, i := range line {
					ox := int(f.oam[i*4+1]) - 8
					if x < ox || x >= ox+8 {
						continue
					}
					covering++
					at := f.oam[i*4+3]
					cx, cy := x-ox, y-(int(f.oam[i*4])-16)
					if at&0x20 != 0 {
						cx = 7 - cx
					}
					if at&0x40 != 0 {
						cy = 7 - cy
					}
					id := c15TileID(&f.vram, int(f.oam[i*4+2])*16, cx, cy, dev)
					if id == 0 {
						passed = true
						continue
					}
					if win >= 0 {
						continue // keep counting the covering objects only
					}
					win = int8(i)
					if at&0x80 != 0 && bgid != 0 {
						layer = c15LayerBGOverObject
						if st != nil {
							st.BehindHidden++
						}
					} else {
						pal := f.obp0
						sel := at&0x10 != 0
						if dev&c15DevPalBit3 != 0 {
							sel = at&0x08 != 0
						}
						if sel {
							pal = f.obp1
						}
						out = shade(pal, id)
						layer = c15LayerObject
						if st != nil {
							st.ObjPixels++
							visible[i] = true
							if at&0x80 != 0 {
								st.BehindShown++
							}
							if sel {
								st.OBP1Pixels++
							}
							if passed {
								st.TransparentPass++
							}
						}
					}
				}
				if st != nil && covering >= 2 {
					st.Overlap++
				}
			}
			if st != nil {
				if layer != c15LayerObject {
					st.BGIDs[bgid]++
				}
				if layer == c15LayerWindow {
					st.WindowPixels++
				}
			}
			img.shade[y][x], img.layer[y][x], img.obj[y][x] = out, layer, win
		}
	}
	if st != nil {
		for i := range visible {
			st.VisibleObjs++
			oy, ox, at := int(f.oam[i*4]), int(f.oam[i*4+1]), f.oam[i*4+3]
			if at&0x20 != 0 {
				st.FlipX++
			}
			if at&0x40 != 0 {
				st.FlipY++
			}
			if ox < 8 {
				st.ClipL++
			}
			if ox > 160 {
				st.ClipR++
			}
			if oy < 16 {
				st.ClipT++
			}
			if oy > 152 {
				st.ClipB++
			}
		}
	}
	return img
}

// ---------------------------------------------------------------------------
// driving the code under test

var c15ROM = machine.MakeROM(0, 0, 0)

func c15Emit(f *c15Flat) (*machine.M, error) {
	m := machine.NewHW(c15ROM, nil, false)
	m.Mp.Write(0xff40, 0x00)
	for i, b := range f.vram {
		m.Mp.Write(0x8000+uint16(i), b)
	}
	for i, b := range f.oam {
		m.Mp.Write(0xfe00+uint16(i), b)
	}
	m.Mp.Write(0xff42, f.scy)
	m.Mp.Write(0xff43, f.scx)
	m.Mp.Write(0xff4a, f.wy)
	m.Mp.Write(0xff4b, f.wx)
	m.Mp.Write(0xff47, f.bgp)
	m.Mp.Write(0xff48, f.obp0)
	m.Mp.Write(0xff49, f.obp1)
	m.Mp.Write(0xff40, f.lcdc)
	if f.preOn > 0 {
		for i := 0; i < f.preOn; i++ {
			m.HW()
		}
		m.Mp.Write(0xff40, f.lcdc&^0x80)
		m.Mp.Write(0xff40, f.lcdc)
	}
	frames := f.frames
	if frames <= 0 {
		frames = 3
	}
	for i := 0; i < frames*c13Frame; i++ {
		m.HW()
	}
	fr := m.P.Frame()
	if fr == nil {
		return nil, fmt.Errorf("no frame")
	}
	if b := fr.Bounds(); b.Dx() != 160 || b.Dy() != 144 {
		return nil, fmt.Errorf("frame is %dx%d, want 160x144", b.Dx(), b.Dy())
	}
	return m, nil
}

var (
	c15CalOnce   sync.Once
	c15CalErr    error
	c15ShadeOf   map[color.RGBA]uint8
	c15ShadeRGBA [4]color.RGBA
)

// c15Calibrate measures the RGBA value of the four shades on flat scenes
// (all tile data zero, so every pixel is BG colour id 0, shown as shade BGP&3).
func c15Calibrate() error {
	c15CalOnce.Do(func() {
		c15ShadeOf = map[color.RGBA]uint8{}
		for s := uint8(0); s < 4; s++ {
			f := &c15Flat{lcdc: 0x81, wx: 7, bgp: s}
			m, err := c15Emit(f)
			if err != nil {
				c15CalErr = err
				return
			}
			fr := m.P.Frame()
			b := fr.Bounds()
			px := fr.RGBAAt(b.Min.X, b.Min.Y)
			for y := 0; y < 144; y++ {
				for x := 0; x < 160; x++ {
					if fr.RGBAAt(b.Min.X+x, b.Min.Y+y) != px {
						c15CalErr = fmt.Errorf("flat scene with BGP=%02x is not flat: pixel (%d,%d) %v, pixel (0,0) %v", s, x, y, fr.RGBAAt(b.Min.X+x, b.Min.Y+y), px)
						return
					}
				}
			}
			if prev, dup := c15ShadeOf[px]; dup {
				c15CalErr = fmt.Errorf("shades %d and %d are both shown as %v", prev, s, px)
				return
			}
			c15ShadeOf[px] = s
			c15ShadeRGBA[s] = px
		}
		lum := func(c color.RGBA) int { return 299*int(c.R) + 587*int(c.G) + 114*int(c.B) }
		for s := 1; s < 4; s++ {
			if lum(c15ShadeRGBA[s]) >= lum(c15ShadeRGBA[s-1]) {
				c15CalErr = fmt.Errorf("shade %d (%v) is not darker than shade %d (%v)", s, c15ShadeRGBA[s], s-1, c15ShadeRGBA[s-1])
				return
			}
		}
	})
	return c15CalErr
}

// c15Shades renders the scene on the code under test and maps the frame to shade indices.
func c15Shades(f *c15Flat) (got [144][160]uint8, sig string, err error) {
	m, e := c15Emit(f)
	if e != nil {
		return got, "frame-size", e
	}
	fr := m.P.Frame()
	b := fr.Bounds()
	for y := 0; y < 144; y++ {
		for x := 0; x < 160; x++ {
			px := fr.RGBAAt(b.Min.X+x, b.Min.Y+y)
			sh, ok := c15ShadeOf[px]
			if !ok {
				return got, "pixel-not-a-calibrated-shade", fmt.Errorf("pixel (%d,%d) is %v, none of the four calibrated shades %v", x, y, px, c15ShadeRGBA)
			}
			got[y][x] = sh
		}
	}
	return got, "", nil
}

func c15ShadesSafe(f *c15Flat) (got [144][160]uint8, sig string, err error) {
	defer vf.Recover(&sig, &err)
	return c15Shades(f)
}

// c15Probes derives variants of a scene (all inside the preconditions) used
// only to confirm a diagnosis: attribute bit 3 flipped, attribute bit 4
// flipped, tile planes exchanged, all objects 8 lines lower, other palettes.
func c15Probes(f *c15Flat) []*c15Flat {
	var ps []*c15Flat
	for k := 0; k < 5; k++ {
		p := *f
		switch k {
		case 0, 1:
			for i := 0; i < 40; i++ {
				p.oam[i*4+3] ^= []uint8{0x08, 0x10}[k]
			}
		case 2:
			for i := 0; i < 0x1800; i += 2 {
				p.vram[i], p.vram[i+1] = p.vram[i+1], p.vram[i]
			}
		case 3:
			var cover [144]int
			over := false
			for i := 0; i < 40; i++ {
				p.oam[i*4] += 8
				for ly := int(p.oam[i*4]) - 16; ly < int(p.oam[i*4])-8; ly++ {
					if ly >= 0 && ly < 144 {
						cover[ly]++
						over = over || cover[ly] > 10
					}
				}
			}
			if over {
				continue // objects that were above the screen would make an 11th on a line
			}
		case 4:
			p.bgp, p.obp0, p.obp1 = 0xe4, 0x1b, 0x8d
		}
		ps = append(ps, &p)
	}
	return ps
}

func c15Run(s c15Scene) (sig string, err error) {
	defer vf.Recover(&sig, &err)
	if e := c15Validate(&s); e != nil {
		return "invalid-case", fmt.Errorf("case outside the property's preconditions: %v", e)
	}
	if e := c15Calibrate(); e != nil {
		return "shade-calibration-failed", e
	}
	f := c15Build(&s)
	got, sig, err := c15Shades(f)
	if err != nil {
		return sig, err
	}
	want := c15Render(f, 0, nil)
	if got == want.shade {
		return "", nil
	}
	// Diagnosis: the smallest set of known deviations that explains every pixel
	// of this scene AND of five probe variants of it (so that an unrelated
	// defect that merely coincides with a known one on this scene is not
	// given its name).
	sig = "pixel-mismatch"
	var probes []*c15Flat
	var probeGot [][144][160]uint8
	probesOK := true
	for _, set := range []int{1, 2, 4, 3, 5, 6, 7} {
		if alt := c15Render(f, set, nil); alt.shade != got {
			continue
		}
		if probes == nil && probesOK {
			probes = c15Probes(f)
			for _, p := range probes {
				g, _, e := c15ShadesSafe(p)
				if e != nil {
					probesOK = false
					break
				}
				probeGot = append(probeGot, g)
			}
		}
		if !probesOK {
			break
		}
		// a probe may bring out further known deviations that this scene does
		// not show: it confirms the set if the set or a superset explains it
		confirmed := true
		for i, p := range probes {
			ok := false
			for super := set; super <= 7 && !ok; super++ {
				ok = super&set == set && c15Render(p, super, nil).shade == probeGot[i]
			}
			if !ok {
				confirmed = false
				break
			}
		}
		if confirmed {
			var names []string
			for _, d := range c15DevNames {
				if set&d.bit != 0 {
					names = append(names, d.name)
				}
			}
			sig = strings.Join(names, "+")
			break
		}
	}
	ndiff := 0
	fx, fy := -1, -1
	for y := 0; y < 144; y++ {
		for x := 0; x < 160; x++ {
			if got[y][x] != want.shade[y][x] {
				ndiff++
				if fx < 0 {
					fx, fy = x, y
				}
			}
		}
	}
	var cov []string
	for i := 0; i < 40; i++ {
		oy, ox := int(f.oam[i*4])-16, int(f.oam[i*4+1])-8
		if fy >= oy && fy < oy+8 && fx >= ox && fx < ox+8 {
			cov = append(cov, fmt.Sprintf("#%d Y=%d X=%d tile=%02x attr=%02x", i, f.oam[i*4], f.oam[i*4+1], f.oam[i*4+2], f.oam[i*4+3]))
		}
	}
	return sig, fmt.Errorf("%d of 23040 pixels differ; first (%d,%d): shade %d, reference shade %d taken from the %s layer (winning object %d); LCDC=%02x SCX=%d SCY=%d WX=%d WY=%d BGP=%02x OBP0=%02x OBP1=%02x; objects covering the pixel: %v",
		ndiff, fx, fy, got[fy][fx], want.shade[fy][fx], c15LayerNames[want.layer[fy][fx]], want.obj[fy][fx], f.lcdc, f.scx, f.scy, f.wx, f.wy, f.bgp, f.obp0, f.obp1, cov)
}

// One check name per campaign (same executor), so that each campaign keeps its
// own minimal failing case.
func init() {
	for _, name := range []string{"render", "render-backgrounds", "render-scenes", "render-crowded", "render-seams"} {
		vf.RegisterReplay("C15/"+name, func(raw json.RawMessage) (string, error) {
			var s c15Scene
			if err := json.Unmarshal(raw, &s); err != nil {
				return "", err
			}
			return c15Run(s)
		})
	}
}

// ---------------------------------------------------------------------------
// generation (inside the statement's preconditions by construction)

var c15ObjGen = rapid.Custom(func(rt *rapid.T) c15Obj {
	var o c15Obj
	switch rapid.IntRange(0, 5).Draw(rt, "ysel") {
	case 0, 1:
		o.Y = uint8(rapid.IntRange(1, 24).Draw(rt, "ytop"))
	case 2:
		o.Y = uint8(rapid.IntRange(144, 167).Draw(rt, "ybottom"))
	case 3:
		o.Y = rapid.Byte().Draw(rt, "yany")
	default:
		o.Y = uint8(rapid.IntRange(0, 175).Draw(rt, "y"))
	}
	switch rapid.IntRange(0, 5).Draw(rt, "xsel") {
	case 0:
		o.X = uint8(rapid.IntRange(0, 16).Draw(rt, "xleft"))
	case 1:
		o.X = uint8(rapid.IntRange(156, 175).Draw(rt, "xright"))
	case 2:
		o.X = rapid.Byte().Draw(rt, "xany")
	default:
		o.X = uint8(rapid.IntRange(0, 175).Draw(rt, "x"))
	}
	o.Tile = rapid.Byte().Draw(rt, "tile")
	o.Attr = rapid.Byte().Draw(rt, "attr")
	return o
})

// c15Normalise orders the objects by X (stable) and drops those that would be
// the 11th on a line.
func c15Normalise(objs []c15Obj) []c15Obj {
	out := append([]c15Obj{}, objs...)
	sort.SliceStable(out, func(i, j int) bool { return out[i].X < out[j].X })
	var cover [144]int
	kept := out[:0]
	for _, o := range out {
		ok := true
		for ly := int(o.Y) - 16; ly < int(o.Y)-8; ly++ {
			if ly >= 0 && ly < 144 && cover[ly] >= 10 {
				ok = false
			}
		}
		if !ok {
			continue
		}
		for ly := int(o.Y) - 16; ly < int(o.Y)-8; ly++ {
			if ly >= 0 && ly < 144 {
				cover[ly]++
			}
		}
		kept = append(kept, o)
	}
	return kept
}

var c15TileNs = []int{0, 1, 127, 128, 129, 255, 256, 257, 383}

func c15SceneGen(maxObjs int, objectsOn int) *rapid.Generator[c15Scene] {
	return rapid.Custom(func(rt *rapid.T) c15Scene {
		var s c15Scene
		s.LCDC = 0x81 | rapid.Byte().Draw(rt, "lcdc")&0x7a
		switch objectsOn {
		case 0:
			s.LCDC &^= 0x02
		case 1:
			s.LCDC |= 0x02
		default: // objects on in 3 of 4 scenes
			if rapid.IntRange(0, 1).Draw(rt, "objbias") == 1 {
				s.LCDC |= 0x02
			}
		}
		if rapid.IntRange(0, 2).Draw(rt, "winbias") == 0 {
			s.LCDC |= 0x20
		}
		s.SCX = rapid.Byte().Draw(rt, "scx")
		s.SCY = rapid.Byte().Draw(rt, "scy")
		s.WX = uint8(rapid.IntRange(7, 166).Draw(rt, "wx"))
		if rapid.IntRange(0, 3).Draw(rt, "wysel") == 0 {
			s.WY = uint8(rapid.IntRange(0, 160).Draw(rt, "wyany"))
		} else {
			s.WY = uint8(rapid.IntRange(0, 143).Draw(rt, "wy"))
		}
		s.BGP = rapid.Byte().Draw(rt, "bgp")
		s.OBP0 = rapid.Byte().Draw(rt, "obp0")
		s.OBP1 = rapid.Byte().Draw(rt, "obp1")
		s.TileFill = []int{0, 1, 2, 3, 4, 4, 4, 4, 5, 5}[rapid.IntRange(0, 9).Draw(rt, "tilefill")]
		s.TileSeed = rapid.Uint32().Draw(rt, "tileseed")
		s.Tiles = rapid.SliceOfN(rapid.Custom(func(rt *rapid.T) c15Tile {
			n := rapid.IntRange(0, 383).Draw(rt, "n")
			if rapid.IntRange(0, 2).Draw(rt, "nsel") == 0 {
				n = c15TileNs[rapid.IntRange(0, len(c15TileNs)-1).Draw(rt, "nedge")]
			}
			d := rapid.SliceOfN(rapid.Byte(), 16, 16).Draw(rt, "d")
			return c15Tile{N: n, D: hex.EncodeToString(d)}
		}), 0, 6).Draw(rt, "tiles")
		s.MapFill = []int{0, 1, 1, 1, 2}[rapid.IntRange(0, 4).Draw(rt, "mapfill")]
		s.MapSeed = rapid.Uint32().Draw(rt, "mapseed")
		s.Cells = rapid.SliceOfN(rapid.Custom(func(rt *rapid.T) c15Cell {
			return c15Cell{M: rapid.IntRange(0, 1).Draw(rt, "m"), P: rapid.IntRange(0, 1023).Draw(rt, "p"), T: rapid.Byte().Draw(rt, "t")}
		}), 0, 6).Draw(rt, "cells")
		if maxObjs > 0 {
			s.Objs = c15Normalise(rapid.SliceOfN(c15ObjGen, 0, maxObjs).Draw(rt, "objs"))
		}
		if rapid.IntRange(0, 2).Draw(rt, "prehistory") == 0 {
			s.PreOn = rapid.IntRange(1, 2*c13Frame).Draw(rt, "pre_on")
			s.Frames = rapid.IntRange(1, 3).Draw(rt, "frames")
		}
		return s
	})
}

func c15Classify(c *vf.Collector, prefix string, s *c15Scene) (nontrivial bool) {
	var st c15Stats
	c15Render(c15Build(s), 0, &st)
	ids := 0
	for _, n := range st.BGIDs {
		if n > 0 {
			ids++
		}
	}
	flag := func(name string, on bool) {
		if on {
			c.Class(prefix+name, 1)
		}
	}
	flag("window-visible", st.WindowPixels > 0)
	flag("object-visible", st.ObjPixels > 0)
	flag("object-clipped-left", st.ClipL > 0)
	flag("object-clipped-right", st.ClipR > 0)
	flag("object-clipped-top", st.ClipT > 0)
	flag("object-clipped-bottom", st.ClipB > 0)
	flag("behind-bg-object-hidden", st.BehindHidden > 0)
	flag("behind-bg-object-shown-over-colour0", st.BehindShown > 0)
	flag("signed-tile-addressing", s.LCDC&0x10 == 0)
	flag("signed-tile-addressing-negative-index", st.NegTile > 0)
	flag("objects-overlap", st.Overlap > 0)
	flag("lower-priority-object-through-transparent-pixel", st.TransparentPass > 0)
	flag("obp1-used", st.OBP1Pixels > 0)
	flag("object-flip-x", st.FlipX > 0)
	flag("object-flip-y", st.FlipY > 0)
	flag("10-objects-on-a-line", st.MaxPerLine == 10)
	flag("bg-map-9c00", s.LCDC&0x08 != 0)
	flag("window-map-9c00", s.LCDC&0x40 != 0 && st.WindowPixels > 0)
	flag("objects-disabled", s.LCDC&0x02 == 0)
	flag("all-four-bg-colour-ids", ids == 4)
	return ids >= 2 && st.ObjPixels > 0
}

// c15Purify neutralises every known deviation except keep: tile planes made
// equal (colour ids 0 and 3 only), objects above line 0 removed, attribute bit
// 3 made equal to bit 4. The result is still inside the preconditions.
func c15Purify(s c15Scene, keep int) c15Scene {
	p := s
	if keep != c15DevSwap12 {
		if p.TileFill >= 2 {
			p.TileFill = 1
		}
		p.Tiles = nil
		for _, t := range s.Tiles {
			d, _ := hex.DecodeString(t.D)
			for r := 0; r+1 < len(d); r += 2 {
				d[r+1] = d[r]
			}
			p.Tiles = append(p.Tiles, c15Tile{N: t.N, D: hex.EncodeToString(d)})
		}
	}
	p.Objs = nil
	for _, o := range s.Objs {
		if keep != c15DevTopDrop && o.Y < 16 {
			continue
		}
		if keep != c15DevPalBit3 {
			o.Attr = o.Attr&^0x08 | (o.Attr&0x10)>>1
		}
		p.Objs = append(p.Objs, o)
	}
	return p
}

func c15Check(c *vf.Collector, rt *rapid.T, check string, s c15Scene) {
	sig, err := c15Run(s)
	if err == nil {
		return
	}
	// overlapping root causes are reported one by one, each - where possible -
	// with a variant of the scene that shows that cause alone
	parts := strings.Split(sig, "+")
	violation := false
	for _, part := range parts {
		rep, msg := s, err.Error()
		if len(parts) > 1 {
			for _, d := range c15DevNames {
				if d.name == part {
					p := c15Purify(s, d.bit)
					if psig, perr := c15Run(p); perr != nil && psig == part {
						rep, msg = p, perr.Error()
					}
				}
			}
		}
		if !c.Fail(check, part, msg, rep) {
			violation = true
		}
	}
	if violation {
		rt.Fatalf("%s: %v", sig, err)
	}
}

func TestC15(t *testing.T) {
	c := vf.New(t, "C15", "rapid scenes inside the statement's preconditions by construction (LCD+BG on, 8x8 objects sorted by X in OAM, <= 10 per line, WX 7-166): tile data = seeded fill "+
		"(zero / planes equal / one plane / random / mixed) + explicit tiles, both maps (seeded fill + explicit cells), both addressing modes, any SCX/SCY/BGP/OBP0/OBP1, window on/off with WY 0-160, "+
		"0-40 objects at any position incl. beyond each edge, any attribute byte, OBJ enable on/off; campaign 'backgrounds' has no objects, 'scenes' up to 40, 'crowded' forces objects on with up to 40. "+
		"Loaded with the LCD off, three frames on machine.HW() (in a third of the scenes the LCD first shows the scene for a drawn part of a frame, is switched off and on again, and 1-3 frames follow), all 23040 pixels of PPU.Frame() compared with the reference renderer through shade->RGBA values calibrated on four flat scenes; a few scenes are judged on frame 255-258 instead. "+
		"Non-trivial: the reference shows >= 2 distinct background/window colour ids and >= 1 visible object pixel. Distinct = hash of the scene.")
	defer c.Flush()
	c.RunReplays()
	if err := c15Calibrate(); err != nil {
		if !c.Fail("render", "shade-calibration-failed", err.Error(), c15Scene{LCDC: 0x81, WX: 7}) {
			t.Fatalf("calibration: %v", err)
		}
		return
	}
	c.Extra("calibrated_shades_rgba", fmt.Sprintf("%v", c15ShadeRGBA))

	flag.Set("rapid.shrinktime", "12s") // three campaigns; the default 30 s each is too long for the quick tier on a failing tree
	bg := c15SceneGen(0, 0)
	c.Rapid("backgrounds", 1600, 60000, func(rt *rapid.T) {
		s := bg.Draw(rt, "scene")
		c15Classify(c, "backgrounds/", &s)
		// no objects: non-trivial for this campaign cannot hold; counted as trivial
		c.Case("backgrounds", vf.Hash(s), false, func() interface{} { return s })
		c15Check(c, rt, "render-backgrounds", s)
	})
	full := c15SceneGen(40, -1)
	c.Rapid("scenes", 4800, 160000, func(rt *rapid.T) {
		s := full.Draw(rt, "scene")
		nt := c15Classify(c, "scenes/", &s)
		c.Case("scenes", vf.Hash(s), nt, func() interface{} { return s })
		c15Check(c, rt, "render-scenes", s)
	})
	crowdedBase := c15SceneGen(0, 1)
	crowded := rapid.Custom(func(rt *rapid.T) c15Scene {
		s := crowdedBase.Draw(rt, "base")
		// many objects in a band of lines, so that lines with 10 objects and overlaps are common
		y0 := rapid.IntRange(0, 160).Draw(rt, "band")
		objs := rapid.SliceOfN(rapid.Custom(func(rt *rapid.T) c15Obj {
			return c15Obj{Y: uint8(y0 + rapid.IntRange(0, 15).Draw(rt, "dy")), X: uint8(rapid.IntRange(0, 60).Draw(rt, "x") + rapid.IntRange(0, 2).Draw(rt, "xblock")*56),
				Tile: rapid.Byte().Draw(rt, "tile"), Attr: rapid.Byte().Draw(rt, "attr")}
		}), 10, 40).Draw(rt, "objs")
		s.Objs = c15Normalise(objs)
		return s
	})
	// two crowded bands, most often the last and the first lines of the frame (state carried from the end of
	// one frame into the next shows on line 0 from the second frame on) or two adjacent bands
	seams := rapid.Custom(func(rt *rapid.T) c15Scene {
		s := crowdedBase.Draw(rt, "base")
		ya, yb := 144+rapid.IntRange(0, 15).Draw(rt, "bottom"), 9+rapid.IntRange(0, 8).Draw(rt, "top")
		if rapid.IntRange(0, 3).Draw(rt, "adjacent") == 0 {
			ya = rapid.IntRange(16, 150).Draw(rt, "band")
			yb = ya + 8
		}
		band := func(y0 int, label string) []c15Obj {
			return rapid.SliceOfN(rapid.Custom(func(rt *rapid.T) c15Obj {
				return c15Obj{Y: uint8(y0 + rapid.IntRange(0, 3).Draw(rt, "dy")), X: uint8(8 + rapid.IntRange(0, 19).Draw(rt, "slot")*8 + rapid.IntRange(0, 2).Draw(rt, "dx")),
					Tile: rapid.Byte().Draw(rt, "tile"), Attr: rapid.Byte().Draw(rt, "attr")}
			}), 4, 12).Draw(rt, label)
		}
		s.Objs = c15Normalise(append(band(ya, "band-a"), band(yb, "band-b")...))
		return s
	})
	c.Rapid("seams", 1200, 40000, func(rt *rapid.T) {
		s := seams.Draw(rt, "scene")
		nt := c15Classify(c, "seams/", &s)
		c.Case("seams", vf.Hash(s), nt, func() interface{} { return s })
		c15Check(c, rt, "render-seams", s)
	})
	// the picture of a late frame: whatever counts frames, lines or window rows must not wrap into it
	c.Sub("late-frames", func(t *testing.T) {
		counts := []int{255, 256, 257, 258}
		if c.Env.Thorough() {
			counts = append(counts, 511, 512, 513, 65535, 65536, 65537)
		}
		var n, nt int64
		idx := 0
		for _, fc := range counts {
			for k := 0; k < 2; k++ {
				idx++
				if !c.Env.Mine(idx) {
					continue
				}
				var s c15Scene
				if k == 0 {
					s = seams.Example(int(c.Env.RandSeed(15))*7 + idx)
				} else {
					s = full.Example(int(c.Env.RandSeed(15))*7 + idx)
				}
				s.PreOn, s.Frames = 0, fc
				if idx%3 == 0 {
					s.PreOn = 5000 + 131*idx // an interrupted frame first
				}
				n++
				if c15Classify(c, "late-frames/", &s) {
					nt++
				}
				c.Sample("late-frames", s)
				if sig, err := c15Run(s); err != nil {
					if known, first := c.FailFirst("render-late-frames", sig, err.Error(), s); !known && first {
						t.Errorf("%v", err)
					}
				}
			}
		}
		c.Bulk("late-frames", n, nt)
		c.Exhaustive("two drawn scenes for each judged frame number 255-258 (thorough: also 511-513 and 65535-65537)")
	})

	c.Rapid("crowded", 1600, 60000, func(rt *rapid.T) {
		s := crowded.Draw(rt, "scene")
		nt := c15Classify(c, "crowded/", &s)
		c.Case("crowded", vf.Hash(s), nt, func() interface{} { return s })
		c15Check(c, rt, "render-crowded", s)
	})
}
