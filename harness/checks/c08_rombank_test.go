package checks

import (
	"encoding/json"
	"fmt"
	"sort"
	"sync"
	"testing"

	"github.com/scottyw/tetromino/gameboy/memory"
	"pgregory.net/rapid"

	"verifharness/machine"
	"verifharness/vf"
)

// C08 — cartridge ROM banking follows each controller's register semantics.
//
// Reference model (Pan Docs "MBC1", "MBC2", "MBC3", "MBC5", "No MBC"):
//
//	ROM only  0000-3FFF = page 0, 4000-7FFF = page 1, writes ignored
//	MBC1      2000-3FFF BANK1 = v&1F (0 -> 1), 4000-5FFF BANK2 = v&3, 6000-7FFF MODE = v&1
//	          4000-7FFF = (BANK2<<5 | BANK1) mod pages; 0000-3FFF = MODE ? (BANK2<<5) mod pages : 0
//	MBC2      0000-3FFF with A8 set: bank = v&0F (0 -> 1); 4000-7FFF = bank mod pages
//	MBC3      2000-3FFF bank = v&7F (0 -> 1); 4000-7FFF = bank mod pages
//	MBC5      2000-2FFF low 8 bits, 3000-3FFF bit 8 = v&1, bank 0 allowed; 4000-7FFF = bank mod pages
//
// Every 16 KiB page of the image carries its page number (machine.MakeROM), so
// one 3-byte read identifies the page that is mapped.

type c08Op struct {
	A uint16 `json:"a"`
	V uint8  `json:"v"`
}

type c08Case struct {
	Cart       uint8   `json:"cart"`
	RomSize    uint8   `json:"romsize"`
	RamSize    uint8   `json:"ramsize"`
	Ops        []c08Op `json:"ops"`         // bus writes: 0000-7FFF control, A000-BFFF cartridge RAM traffic
	RevisitAll bool    `json:"revisit_all"` // after the sequence map every page in turn and verify its contents
	Light      bool    `json:"light"`       // skip the byte-for-byte comparison of both windows (enumerations: block signatures only)
}

const (
	c08None = 0
	c08MBC1 = 1
	c08MBC2 = 2
	c08MBC3 = 3
	c08MBC5 = 5
)

var c08KindNames = map[int]string{c08None: "rom-only", c08MBC1: "mbc1", c08MBC2: "mbc2", c08MBC3: "mbc3", c08MBC5: "mbc5"}
var c08KindList = []int{c08None, c08MBC1, c08MBC2, c08MBC3, c08MBC5}
var c08Carts = map[int][]uint8{
	c08None: {0x00},
	c08MBC1: {0x01, 0x02, 0x03},
	c08MBC2: {0x05, 0x06},
	c08MBC3: {0x0f, 0x10, 0x11, 0x12, 0x13},
	c08MBC5: {0x19, 0x1a, 0x1b, 0x1c, 0x1d, 0x1e},
}
var c08MaxSize = map[int]int{c08None: 0, c08MBC1: 6, c08MBC2: 3, c08MBC3: 6, c08MBC5: 8}

func c08KindOf(cart uint8) int {
	switch {
	case cart == 0x00:
		return c08None
	case cart >= 0x01 && cart <= 0x03:
		return c08MBC1
	case cart == 0x05 || cart == 0x06:
		return c08MBC2
	case cart >= 0x0f && cart <= 0x13:
		return c08MBC3
	case cart >= 0x19 && cart <= 0x1e:
		return c08MBC5
	}
	return -1
}

func c08RAMBanks(kind int, ramSize uint8) int {
	if kind == c08MBC2 {
		return 1
	}
	switch ramSize {
	case 3:
		return 4
	case 4:
		return 16
	case 5:
		return 8
	}
	return 1
}

// c08Model is the reference controller (ROM side only, plus just enough of the
// RAM side to know whether an A000-BFFF access is one that C09 defines).
type c08Model struct {
	kind  int
	pages int
	b1    int // MBC1 BANK1 after the 0->1 remap
	b2    int
	mode  bool
	bank  int // MBC2/3/5 bank register after remap, before reduction modulo the ROM size
	// how the current bank value came about (for the diagnosis only)
	remapped bool // the register holds 1 because 0 was written
	// RAM side (MBC3 only matters)
	ramEn  bool
	ramSel int
	// features seen
	feat map[string]bool
}

func c08NewModel(kind, pages int) *c08Model {
	return &c08Model{kind: kind, pages: pages, b1: 1, bank: 1, feat: map[string]bool{}}
}

func (m *c08Model) write(a uint16, v uint8) {
	if a >= 0x8000 {
		return
	}
	switch m.kind {
	case c08MBC1:
		switch {
		case a < 0x2000:
			m.ramEn = v&0x0f == 0x0a
		case a < 0x4000:
			m.b1 = int(v & 0x1f)
			m.remapped = m.b1 == 0
			if m.b1 == 0 {
				m.b1 = 1
				m.feat["remap0"] = true
			}
		case a < 0x6000:
			m.b2 = int(v & 3)
		default:
			old := m.mode
			m.mode = v&1 != 0
			if old != m.mode {
				m.feat["mode-switch"] = true
			}
		}
		if m.mode && (m.b2<<5)%m.pages != 0 {
			m.feat["mode1-low-banked"] = true
		}
	case c08MBC2:
		if a < 0x4000 {
			if a&0x0100 != 0 {
				m.bank = int(v & 0x0f)
				m.remapped = m.bank == 0
				if m.bank == 0 {
					m.bank = 1
					m.feat["remap0"] = true
				}
				if a >= 0x2000 || a&0xfe00 != 0 {
					m.feat["a8-set-odd-address"] = true
				}
			} else {
				m.ramEn = v&0x0f == 0x0a
				if a >= 0x2000 {
					m.feat["a8-clear-above-2000"] = true
				}
			}
		}
	case c08MBC3:
		switch {
		case a < 0x2000:
			m.ramEn = v&0x0f == 0x0a
		case a < 0x4000:
			m.bank = int(v & 0x7f)
			m.remapped = m.bank == 0
			if m.bank == 0 {
				m.bank = 1
				m.feat["remap0"] = true
			}
		case a < 0x6000:
			m.ramSel = int(v)
		}
	case c08MBC5:
		switch {
		case a < 0x2000:
			m.ramEn = v&0x0f == 0x0a
		case a < 0x3000:
			m.bank = m.bank&0x100 | int(v)
			if m.bank == 0 {
				m.feat["bank0"] = true
			}
		case a < 0x4000:
			m.bank = m.bank&0xff | int(v&1)<<8
			if m.bank == 0 {
				m.feat["bank0"] = true
			}
			if v&1 != 0 {
				m.feat["bit8"] = true
			}
		}
	}
	if m.raw() >= m.pages {
		m.feat["bank>=pages"] = true
	}
	if m.hi() > 1 || m.lo() != 0 {
		m.feat["non-default-page"] = true
	}
}

// raw is the bank number selected for 4000-7FFF before reduction.
func (m *c08Model) raw() int {
	switch m.kind {
	case c08None:
		return 1
	case c08MBC1:
		return m.b2<<5 | m.b1
	}
	return m.bank
}

func (m *c08Model) hi() int { return m.raw() % m.pages }

func (m *c08Model) lo() int {
	if m.kind == c08MBC1 && m.mode {
		return (m.b2 << 5) % m.pages
	}
	return 0
}

// ramAccessDefined: an A000-BFFF write that C09 gives a meaning to (MBC3 with
// a RAM bank number the cartridge does not have is C09/C11 territory).
func (m *c08Model) ramAccessDefined(ramBanks int) bool {
	if m.kind != c08MBC3 || !m.ramEn {
		return true
	}
	return m.ramSel < ramBanks || (m.ramSel >= 8 && m.ramSel <= 0x0c)
}

// ---------------------------------------------------------------------------

var c08Shared *machine.M
var c08ImgMu sync.Mutex
var c08Images = map[uint8][]byte{}

// c08Image returns the signature image for a ROM size with the header bytes
// set. Images of MBC cartridges are cached per size (the controllers copy the
// image); the ROM-only controller keeps a reference so it gets a fresh one.
func c08Image(cart, romSize, ramSize uint8) []byte {
	if c08KindOf(cart) == c08None {
		return machine.MakeROM(cart, romSize, ramSize)
	}
	c08ImgMu.Lock()
	defer c08ImgMu.Unlock()
	img, ok := c08Images[romSize]
	if !ok {
		img = machine.MakeROM(cart, romSize, ramSize)
		c08Images[romSize] = img
	}
	img[0x147], img[0x148], img[0x149] = cart, romSize, ramSize
	return img
}

func c08Mapper(rom []byte) *memory.Mapper {
	if c08Shared == nil {
		c08Shared = machine.NewHW(machine.MakeROM(0, 0, 0), nil, false)
	}
	s := c08Shared
	return memory.New(rom, s.I, s.O, s.P, s.C, s.S, s.T, s.A)
}

type c08Ctx struct {
	m     *c08Model
	phase string
	step  int
}

// c08Page identifies the page whose signature is visible at base+off.
func c08Page(mp *memory.Mapper, addr uint16) int {
	lo, hi, chk := mp.Read(addr), mp.Read(addr+1), mp.Read(addr+2)
	if chk != 0xa5^lo {
		return -1
	}
	return int(lo) | int(hi)<<8
}

var c08Probe = []uint16{0x0000, 0x2100, 0x3ffd}

func c08CheckWindows(mp *memory.Mapper, m *c08Model, ctx *c08Ctx) (string, error) {
	name := c08KindNames[m.kind]
	for _, off := range c08Probe {
		ctx.phase = "read-low-window"
		if got, want := c08Page(mp, off), m.lo(); got != want {
			sig := name + "-rom-low-window-wrong-page"
			if got < 0 {
				sig = name + "-rom-content-corrupt"
			} else if m.kind == c08MBC1 && m.mode {
				sig = name + "-rom-low-window-mode1-wrong-page"
			}
			return sig, fmt.Errorf("%s, %d pages: %04x shows page %d, want page %d (%s)", name, m.pages, off, got, want, m.describe())
		}
		ctx.phase = "read-high-window"
		if got, want := c08Page(mp, 0x4000+off), m.hi(); got != want {
			sig := name + "-rom-high-window-wrong-page"
			switch {
			case got < 0:
				sig = name + "-rom-content-corrupt"
			case m.remapped && got == 0:
				sig = name + "-rom-bank0-not-remapped"
			case m.raw() >= m.pages:
				sig = name + "-rom-bank-not-reduced"
			}
			return sig, fmt.Errorf("%s, %d pages: %04x shows page %d, want page %d (%s)", name, m.pages, 0x4000+off, got, want, m.describe())
		}
	}
	return "", nil
}

func (m *c08Model) describe() string {
	switch m.kind {
	case c08MBC1:
		return fmt.Sprintf("BANK1=%02x BANK2=%x MODE=%v", m.b1, m.b2, m.mode)
	case c08None:
		return "no controller"
	}
	return fmt.Sprintf("bank register=%03x remapped-from-0=%v", m.bank, m.remapped)
}

// c08SelectWrites returns control writes that map page p and the window it
// then appears in (0 = 0000-3FFF, 1 = 4000-7FFF).
func c08SelectWrites(kind, p int) ([]c08Op, int) {
	switch kind {
	case c08None:
		return nil, p & 1
	case c08MBC1:
		if p&0x1f == 0 {
			return []c08Op{{0x6000, 1}, {0x4000, uint8(p >> 5)}}, 0
		}
		return []c08Op{{0x6000, 0}, {0x2000, uint8(p & 0x1f)}, {0x4000, uint8(p >> 5)}}, 1
	case c08MBC2:
		if p == 0 {
			return nil, 0
		}
		return []c08Op{{0x2100, uint8(p)}}, 1
	case c08MBC3:
		if p == 0 {
			return nil, 0
		}
		return []c08Op{{0x2000, uint8(p)}}, 1
	}
	return []c08Op{{0x2000, uint8(p)}, {0x3000, uint8(p >> 8)}}, 1
}

func c08Run(c c08Case) (sig string, err error) {
	ctx := &c08Ctx{}
	sig, err = c08RunInner(c, ctx)
	if sig == "panic" && ctx.m != nil {
		name := c08KindNames[ctx.m.kind]
		switch {
		case ctx.phase == "read-high-window" && ctx.m.raw() >= ctx.m.pages:
			sig = name + "-rom-bank-out-of-range-panic"
		case ctx.phase == "read-low-window" || ctx.phase == "read-high-window":
			sig = name + "-rom-read-panic"
		case ctx.phase == "ram-write":
			sig = name + "-ram-write-panic"
		case ctx.phase == "construct":
			sig = name + "-construct-panic"
		default:
			sig = name + "-control-write-panic"
		}
		err = fmt.Errorf("%v [%s, step %d, %s, %d pages]", err, ctx.phase, ctx.step, ctx.m.describe(), ctx.m.pages)
	}
	return sig, err
}

func c08RunInner(c c08Case, ctx *c08Ctx) (sig string, err error) {
	defer vf.Recover(&sig, &err)
	kind := c08KindOf(c.Cart)
	if kind < 0 || int(c.RomSize) > c08MaxSize[kind] {
		return "bad-case", fmt.Errorf("case outside the domain: cart %02x rom size %d", c.Cart, c.RomSize)
	}
	pages := 2 << c.RomSize
	m := c08NewModel(kind, pages)
	ctx.m, ctx.phase = m, "construct"
	img := c08Image(c.Cart, c.RomSize, c.RamSize)
	mp := c08Mapper(img)
	ramBanks := c08RAMBanks(kind, c.RamSize)
	visited := map[int]bool{0: true, 1: true, pages - 1: true, pages / 2: true}
	ctx.step = -1
	if s, e := c08CheckWindows(mp, m, ctx); e != nil {
		return "reset-" + s, fmt.Errorf("at reset: %v", e)
	}
	for i, op := range c.Ops {
		ctx.step = i
		if op.A >= 0xa000 && op.A < 0xc000 {
			if !m.ramAccessDefined(ramBanks) {
				continue
			}
			ctx.phase = "ram-write"
			mp.Write(op.A, op.V)
		} else if op.A < 0x8000 {
			ctx.phase = "control-write"
			mp.Write(op.A, op.V)
			m.write(op.A, op.V)
		} else {
			continue
		}
		visited[m.hi()], visited[m.lo()] = true, true
		if s, e := c08CheckWindows(mp, m, ctx); e != nil {
			return s, fmt.Errorf("after op %d (write %02x to %04x): %v", i, op.V, op.A, e)
		}
	}
	// writes never change ROM contents: both windows byte for byte, then revisit pages
	name := c08KindNames[kind]
	ctx.phase = "read-low-window"
	for a := 0; a < 0x4000 && !c.Light; a++ {
		if got, want := mp.Read(uint16(a)), img[m.lo()*0x4000+a]; got != want {
			return name + "-rom-content-changed", fmt.Errorf("%s: after the sequence %04x reads %02x, image page %d has %02x", name, a, got, m.lo(), want)
		}
	}
	ctx.phase = "read-high-window"
	for a := 0; a < 0x4000 && !c.Light; a++ {
		if got, want := mp.Read(uint16(0x4000+a)), img[m.hi()*0x4000+a]; got != want {
			return name + "-rom-content-changed", fmt.Errorf("%s: after the sequence %04x reads %02x, image page %d has %02x", name, 0x4000+a, got, m.hi(), want)
		}
	}
	var ps []int
	if c.RevisitAll {
		for p := 0; p < pages; p++ {
			ps = append(ps, p)
		}
	} else {
		for p := range visited {
			ps = append(ps, p)
		}
		sort.Ints(ps)
	}
	for _, p := range ps {
		ws, win := c08SelectWrites(kind, p)
		for _, w := range ws {
			ctx.phase = "control-write"
			mp.Write(w.A, w.V)
			m.write(w.A, w.V)
		}
		ctx.phase = "read-high-window"
		if win == 0 {
			ctx.phase = "read-low-window"
		}
		base := uint16(win) * 0x4000
		for off := 0; off <= 0x3f00; off += 0x100 {
			if got := c08Page(mp, base+uint16(off)); got != p {
				s := name + "-rom-revisit-wrong-page"
				if got < 0 {
					s = name + "-rom-content-changed"
				}
				return s, fmt.Errorf("%s: revisiting page %d after the sequence: %04x shows page %d (%s)", name, p, base+uint16(off), got, m.describe())
			}
		}
		if got := c08Page(mp, base+0x3ffd); got != p {
			return name + "-rom-content-changed", fmt.Errorf("%s: revisiting page %d: last bytes show page %d", name, p, got)
		}
	}
	return "", nil
}

// c08Analyse runs the reference model alone to classify a case.
func c08Analyse(c c08Case) (class string, feats []string, nontrivial bool) {
	kind := c08KindOf(c.Cart)
	m := c08NewModel(kind, 2<<c.RomSize)
	ram := false
	for _, op := range c.Ops {
		if op.A >= 0xa000 {
			ram = true
		}
		m.write(op.A, op.V)
	}
	for f := range m.feat {
		feats = append(feats, f)
	}
	sort.Strings(feats)
	if ram {
		feats = append(feats, "ram-traffic")
	}
	nontrivial = m.feat["non-default-page"] || m.feat["remap0"] || m.feat["mode1-low-banked"] || m.feat["bank>=pages"] ||
		m.feat["a8-set-odd-address"] || m.feat["a8-clear-above-2000"] || m.feat["mode-switch"]
	return c08KindNames[kind], feats, nontrivial
}

func init() {
	for _, chk := range []string{"single", "triple", "pair", "seq"} {
		vf.RegisterReplay("C08/"+chk, func(raw json.RawMessage) (string, error) {
			var c c08Case
			if err := json.Unmarshal(raw, &c); err != nil {
				return "", err
			}
			return c08Run(c)
		})
	}
}

// c08Enum collects the failures of one enumeration: known findings are
// reported at once (and the enumeration carries on); of the others the first
// case of every signature is kept and one of them, chosen by shard number so
// that 16 shards between them show every signature, is reported at the end.
type c08Enum struct {
	c     *vf.Collector
	check string
	first map[string]c08Case
	msg   map[string]string
}

func c08NewEnum(c *vf.Collector, check string) *c08Enum {
	return &c08Enum{c: c, check: check, first: map[string]c08Case{}, msg: map[string]string{}}
}

func (e *c08Enum) fail(sig string, err error, cas c08Case) {
	if e.c.OpenKnown(sig) {
		e.c.Fail(e.check, sig, err.Error(), cas)
		return
	}
	e.c.Class("violation:"+sig, 1)
	if _, ok := e.first[sig]; !ok {
		e.first[sig], e.msg[sig] = cas, err.Error()
	}
}

func (e *c08Enum) finish(t *testing.T) {
	if len(e.first) == 0 {
		return
	}
	var sigs []string
	for s := range e.first {
		sigs = append(sigs, s)
	}
	sort.Strings(sigs)
	s := sigs[e.c.Env.Shard%len(sigs)]
	e.c.Fail(e.check, s, e.msg[s], e.first[s])
	for _, s := range sigs {
		t.Errorf("%s: sig=%s %s", e.check, s, e.msg[s])
	}
}

type c08Target struct {
	cart uint8
	size uint8
}

func c08Targets(kinds []int, maxSize int) []c08Target {
	var ts []c08Target
	for _, k := range kinds {
		for _, cart := range c08Carts[k] {
			for s := 0; s <= c08MaxSize[k] && s <= maxSize; s++ {
				ts = append(ts, c08Target{cart, uint8(s)})
			}
		}
	}
	return ts
}

// c08SingleAddrs: the address variants that matter for each controller.
var c08SingleAddrs = map[int][]uint16{
	c08None: {0x0000, 0x2000, 0x4000, 0x6000, 0x7fff},
	c08MBC1: {0x0000, 0x1fff, 0x2000, 0x3fff, 0x4000, 0x5fff, 0x6000, 0x7fff},
	c08MBC2: {0x0000, 0x00ff, 0x0100, 0x01ff, 0x0200, 0x1eff, 0x2000, 0x2100, 0x3eff, 0x3fff, 0x4000, 0x4100, 0x7fff},
	c08MBC3: {0x0000, 0x1fff, 0x2000, 0x3fff, 0x4000, 0x5fff, 0x6000, 0x7fff},
	c08MBC5: {0x0000, 0x1fff, 0x2000, 0x2fff, 0x3000, 0x3fff, 0x4000, 0x5fff, 0x6000, 0x7fff},
}

func TestC08(t *testing.T) {
	c := vf.New(t, "C08", "exhaustive from reset: every controller x cartridge type x declared ROM size x control-address variant x all 256 values (single writes), every MBC1 (BANK1,BANK2,MODE) triple with clear and set unused bits, "+
		"MBC5 (low,high) pairs in both orders on 256- and 512-page images; plus rapid write sequences (<=40 writes to 0000-7FFF with interleaved A000-BFFF writes) per controller; both windows are identified by page signature after every write, "+
		"both windows are compared byte for byte with the image after the sequence and the pages touched (thorough: all pages) are revisited. Non-trivial: the reference selects a page other than the reset default 0/1, or the case exercises the 0->1 remap, "+
		"MBC1 MODE=1 low-area banking or a mode switch, MBC2 A8 decoding at an address other than 0000/0100, or a bank number >= page count. Distinct = hash of the case.")
	defer c.Flush()
	c.RunReplays()
	thorough := c.Env.Thorough()

	c.Sub("single-writes", func(t *testing.T) {
		en := c08NewEnum(c, "single")
		defer en.finish(t)
		targets := c08Targets(c08KindList, 8)
		idx := 0
		var n, nt int64
		for _, tg := range targets {
			kind := c08KindOf(tg.cart)
			// images of 32 pages and more are costly to set up: quick takes one cartridge type per controller for them
			if !thorough && tg.size >= 4 && tg.cart != c08Carts[kind][int(tg.size)%len(c08Carts[kind])] {
				continue
			}
			for _, a := range c08SingleAddrs[kind] {
				for v := 0; v < 256; v++ {
					idx++
					if !c.Env.Mine(idx) {
						continue
					}
					cas := c08Case{Cart: tg.cart, RomSize: tg.size, RamSize: 3, Ops: []c08Op{{a, uint8(v)}}, Light: true}
					_, feats, nontriv := c08Analyse(cas)
					n++
					if nontriv {
						nt++
					}
					for _, f := range feats {
						c.Class("single:"+f, 1)
					}
					if n%20000 == 1 {
						c.Sample("single-write", cas)
					}
					if sig, err := c08Run(cas); err != nil {
						en.fail(sig, err, cas)
					}
				}
			}
		}
		c.Bulk("single-write", n, nt)
		c.Exhaustive("from reset: every cartridge type of ROM-only/MBC1/MBC2/MBC3/MBC5 x every declared ROM size (quick: one type per controller, rotating, for sizes 4-8) x control-address variants (region bounds, A8 variants for MBC2) x all 256 values")
	})

	c.Sub("mbc1-triples", func(t *testing.T) {
		en := c08NewEnum(c, "triple")
		defer en.finish(t)
		var n, nt int64
		idx := 0
		for _, tg := range c08Targets([]int{c08MBC1}, 6) {
			for hiBits := 0; hiBits < 2; hiBits++ {
				for tri := 0; tri < 256; tri++ {
					for order := 0; order < 2; order++ {
						idx++
						if !c.Env.Mine(idx) {
							continue
						}
						b1, b2, mode := uint8(tri&0x1f), uint8(tri>>5&3), uint8(tri>>7&1)
						if hiBits == 1 {
							b1, b2, mode = b1|0xe0, b2|0xfc, mode|0xfe
						}
						ops := []c08Op{{0x2000, b1}, {0x4000, b2}, {0x6000, mode}}
						if order == 1 {
							ops = []c08Op{{0x7fff, mode}, {0x5fff, b2}, {0x3fff, b1}}
						}
						cas := c08Case{Cart: tg.cart, RomSize: tg.size, RamSize: 3, Ops: ops, Light: true}
						_, feats, nontriv := c08Analyse(cas)
						n++
						if nontriv {
							nt++
						}
						for _, f := range feats {
							c.Class("triple:"+f, 1)
						}
						if n%5000 == 1 {
							c.Sample("mbc1-triple", cas)
						}
						if sig, err := c08Run(cas); err != nil {
							en.fail(sig, err, cas)
						}
					}
				}
			}
		}
		c.Bulk("mbc1-triple", n, nt)
		c.Exhaustive("MBC1 types 01-03 x sizes 0-6 x every (BANK1,BANK2,MODE) triple x unused bits clear/set x two write orders")
	})

	c.Sub("mbc5-pairs", func(t *testing.T) {
		en := c08NewEnum(c, "pair")
		defer en.finish(t)
		highs := []int{0x00, 0x01, 0xfe, 0xff}
		if thorough {
			highs = highs[:0]
			for h := 0; h < 256; h++ {
				highs = append(highs, h)
			}
		}
		var n, nt int64
		idx := 0
		for _, size := range []uint8{7, 8} {
			for _, h := range highs {
				for l := 0; l < 256; l++ {
					for order := 0; order < 2; order++ {
						idx++
						if !c.Env.Mine(idx) {
							continue
						}
						ops := []c08Op{{0x2000, uint8(l)}, {0x3000, uint8(h)}}
						if order == 1 {
							ops = []c08Op{{0x3fff, uint8(h)}, {0x2fff, uint8(l)}}
						}
						cas := c08Case{Cart: 0x1b, RomSize: size, RamSize: 3, Ops: ops, Light: true}
						_, feats, nontriv := c08Analyse(cas)
						n++
						if nontriv {
							nt++
						}
						for _, f := range feats {
							c.Class("pair:"+f, 1)
						}
						if n%2000 == 1 {
							c.Sample("mbc5-pair", cas)
						}
						if sig, err := c08Run(cas); err != nil {
							en.fail(sig, err, cas)
						}
					}
				}
			}
		}
		c.Bulk("mbc5-pair", n, nt)
		if thorough {
			c.Exhaustive("MBC5 type 1B, 256- and 512-page images: every (low,high) byte pair in both write orders")
		} else {
			c.Exhaustive("MBC5 type 1B, 256- and 512-page images: every low byte x high in {00,01,FE,FF} in both write orders")
		}
	})

	for _, kind := range c08KindList {
		kind := kind
		qn, tn := 1200, 30000
		if kind == c08None {
			qn, tn = 200, 2000
		}
		c.Rapid("seq-"+c08KindNames[kind], qn, tn, func(rt *rapid.T) {
			cas := c08GenCase(rt, kind, thorough)
			class, feats, nontriv := c08Analyse(cas)
			c.Case("seq:"+class, vf.Hash(cas), nontriv, func() interface{} { return cas })
			for _, f := range feats {
				c.Class("seq:"+class+":"+f, 1)
			}
			if sig, err := c08Run(cas); err != nil {
				if !c.Fail("seq", sig, err.Error(), cas) {
					rt.Fatalf("sig=%s %v", sig, err)
				}
			}
		})
	}
}

var c08BoundaryAddrs = []uint16{0x0000, 0x00ff, 0x0100, 0x01ff, 0x1fff, 0x2000, 0x20ff, 0x2100, 0x2fff, 0x3000, 0x3eff, 0x3fff, 0x4000, 0x5fff, 0x6000, 0x7fff}
var c08RegionOffsets = []uint16{0x0000, 0x0001, 0x00ff, 0x0100, 0x01ff, 0x0fff, 0x1000, 0x1eff, 0x1fff}

func c08GenCase(rt *rapid.T, kind int, thorough bool) c08Case {
	cart := rapid.SampledFrom(c08Carts[kind]).Draw(rt, "cart")
	// sizes: uniform over the declared sizes, the two largest MBC5 images at a lower rate (set-up cost)
	var sizes []int
	for s := 0; s <= c08MaxSize[kind]; s++ {
		sizes = append(sizes, s)
		if s < 7 {
			sizes = append(sizes, s, s)
		}
	}
	size := rapid.SampledFrom(sizes).Draw(rt, "romsize")
	pages := 2 << size
	vals := []uint8{0x00, 0x01, 0x02, 0x03, 0x0a, 0x0f, 0x10, 0x1f, 0x20, 0x21, 0x3f, 0x40, 0x60, 0x7f, 0x80, 0xe0, 0xff,
		uint8(pages), uint8(pages - 1), uint8(pages + 1), uint8(pages / 2), uint8(pages >> 5), uint8(pages>>5 + 1)}
	opGen := rapid.Custom(func(rt *rapid.T) c08Op {
		var a uint16
		switch rapid.IntRange(0, 9).Draw(rt, "akind") {
		case 0, 1, 2, 3, 4:
			// pick a control region first so that every register is written about equally often
			a = uint16(rapid.IntRange(0, 3).Draw(rt, "region"))*0x2000 + rapid.SampledFrom(c08RegionOffsets).Draw(rt, "offset")
		case 5:
			a = rapid.SampledFrom(c08BoundaryAddrs).Draw(rt, "addr")
		case 6:
			a = uint16(rapid.IntRange(0xa000, 0xbfff).Draw(rt, "addr"))
		default:
			a = uint16(rapid.IntRange(0, 0x7fff).Draw(rt, "addr"))
		}
		var v uint8
		if rapid.Bool().Draw(rt, "vkind") {
			v = rapid.SampledFrom(vals).Draw(rt, "val")
		} else {
			v = rapid.Byte().Draw(rt, "val")
		}
		return c08Op{a, v}
	})
	ramSize := rapid.SampledFrom([]uint8{0, 2, 3, 3}).Draw(rt, "ramsize")
	// a slice of short slices: rapid's slices average about six elements whatever the maximum, this
	// gives sequences of ~14 writes (at most 40) that still shrink to a single write
	var ops []c08Op
	for _, chunk := range rapid.SliceOfN(rapid.SliceOfN(opGen, 1, 8), 1, 5).Draw(rt, "ops") {
		ops = append(ops, chunk...)
	}
	return c08Case{Cart: cart, RomSize: uint8(size), RamSize: ramSize, Ops: ops, RevisitAll: thorough}
}
