package checks

import (
	"bytes"
	"fmt"
	"os"
	"strings"

	"verifharness/machine"
	"verifharness/refcpu"
)

// Running the repository's own test ROMs as fixed programs. The verdict is
// the ROM's own: blargg ROMs print "Passed"/"Failed" on the serial port or
// into cartridge RAM; mooneye ROMs execute LD B,B with the Fibonacci
// signature 3,5,8,13,21,34 in B..L on success.

const romDir = "/repo/gameboy/testdata/"

type romVerdict struct {
	Verdict string // "pass", "fail", "timeout", "undefined-opcode", "missing"
	Frames  int
	Text    string
}

func romRun(rel string, maxFrames int, mooneye bool) (v romVerdict) {
	rom, err := os.ReadFile(romDir + rel)
	if err != nil || len(rom) == 0 {
		return romVerdict{Verdict: "missing"}
	}
	defer func() {
		if r := recover(); r != nil {
			v = romVerdict{Verdict: "panic", Text: fmt.Sprint(r)}
		}
	}()
	var sw bytes.Buffer
	m := machine.New(rom, &sw, false)
	for f := 0; f < maxFrames; f++ {
		for i := 0; i < 17556; i++ {
			if m.CPU.VerifAtBoundary() && !m.CPU.VerifHalted() {
				pc := m.CPU.VerifGet().PC
				op := m.Mp.Read(pc)
				if refcpu.IsUndefined(op) {
					return romVerdict{Verdict: "undefined-opcode", Frames: f, Text: sw.String()}
				}
			}
			m.Cycle()
			if mooneye {
				if regs := m.CPU.CheckMooneye(); regs != nil {
					if fmt.Sprint(regs) == "[3 5 8 13 21 34]" {
						return romVerdict{Verdict: "pass", Frames: f}
					}
					return romVerdict{Verdict: "fail", Frames: f, Text: fmt.Sprint(regs)}
				}
			}
		}
		if !mooneye {
			text := sw.String()
			if !strings.Contains(text, "Passed") && !strings.Contains(text, "Failed") {
				text = string(m.Mp.DumpRAM())
			}
			if strings.Contains(text, "Passed") {
				return romVerdict{Verdict: "pass", Frames: f, Text: romTail(text)}
			}
			if strings.Contains(text, "Failed") {
				return romVerdict{Verdict: "fail", Frames: f, Text: romTail(text)}
			}
		}
	}
	return romVerdict{Verdict: "timeout", Frames: maxFrames, Text: romTail(sw.String())}
}

func romTail(s string) string {
	if i := strings.IndexByte(s, 0); i >= 0 && i < len(s) {
		// cartridge RAM dumps: keep the printable text after the signature
		s = strings.Map(func(r rune) rune {
			if r >= 32 && r < 127 || r == '\n' {
				return r
			}
			return -1
		}, s)
	}
	if len(s) > 160 {
		s = s[len(s)-160:]
	}
	return s
}
