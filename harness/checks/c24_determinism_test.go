package checks

import (
	"encoding/json"
	"fmt"
	"os"
	"path/filepath"
	"sort"
	"strings"
	"sync"
	"testing"

	"pgregory.net/rapid"

	"verifharness/vf"
)

// C24 — emulation is deterministic: the same ROM, configuration and input
// schedule for the same number of frames give identical frames, audio
// samples, serial output, cartridge RAM and register state, in the same
// process and in another process. Oracle: differential re-execution — the
// case runs twice in this process (sequentially, through gameboy.New and
// runFrame) and once in a freshly started child process of the same test
// binary; the per-frame state digests, the sample stream, the serial bytes and
// the final state must be identical.

var (
	c24Once sync.Once
	c24Roms []string
)

// c24Corpus lists every non-empty ROM under the repository's testdata.
func c24Corpus() []string {
	c24Once.Do(func() {
		filepath.Walk(romDir, func(p string, info os.FileInfo, err error) error {
			if err == nil && !info.IsDir() && strings.HasSuffix(p, ".gb") && info.Size() >= 0x8000 {
				c24Roms = append(c24Roms, strings.TrimPrefix(p, romDir))
			}
			return nil
		})
		sort.Strings(c24Roms)
	})
	return c24Roms
}

type c24Info struct {
	Frames  int
	Samples int
	Serial  bool
}

func c24Run(c sysCase, child bool) (info c24Info, sig string, err error) {
	defer vf.Recover(&sig, &err)
	rom, rerr := c.rom()
	if rerr != nil {
		return info, "", nil
	}
	n, perr := sysPreflight(rom, c.Frames, c.Inputs)
	if perr != nil || n == 0 {
		return info, "", nil // rejected at construction, crashes (C11's business) or stops at once
	}
	c.Frames = n
	info.Frames = n
	a := sysRunGB(c, nil)
	b := sysRunGB(c, nil)
	info.Samples = a.NSample
	info.Serial = !strings.HasPrefix(a.Serial, "0:")
	if a.Err != "" {
		return info, "", nil
	}
	if d := sysTraceDiff(a, b); d != "" {
		return info, "rerun-differs", fmt.Errorf("two runs in one process of the same ROM, configuration and inputs differ: %s", d)
	}
	if child {
		ch, cerr := sysChild(c)
		if cerr != nil {
			return info, "child-failed", fmt.Errorf("the same case in a child process did not complete although it did in-process: %v", cerr)
		}
		if d := sysTraceDiff(a, ch); d != "" {
			return info, "other-process-differs", fmt.Errorf("a run in another process differs from the run in this one: %s", d)
		}
	}
	return info, "", nil
}

func init() {
	vf.RegisterReplay("C24/determinism", func(raw json.RawMessage) (string, error) {
		var c sysCase
		if err := json.Unmarshal(raw, &c); err != nil {
			return "", err
		}
		_, sig, err := c24Run(c, true)
		return sig, err
	})
}

// c24StormImage: IE = a drawn mask with at least two sources, STAT sources and LYC drawn, a fast timer, and a
// main loop of EI / HALT / requests raised by software; each handler sends its own letter to the serial port.
func c24StormImage(rt *rapid.T) *c11Spec {
	s := &c11Spec{CartType: rapid.SampledFrom([]uint8{0x00, 0x01, 0x13, 0x1b}).Draw(rt, "type"), RomSize: 0, RamSize: 2, Len: -1, Far: true}
	s.Head = make([]byte, 0x68)
	for i, v := range []int{0x40, 0x48, 0x50, 0x58, 0x60} {
		copy(s.Head[v:], []byte{0x3e, byte('V' + i), 0xe0, 0x01, rapid.SampledFrom([]byte{0xd9, 0xd9, 0xc9}).Draw(rt, "ret")})
	}
	ie := rapid.SampledFrom([]byte{0x03, 0x07, 0x1f, 0x06, 0x05, 0x0f, 0x13}).Draw(rt, "ie")
	stat := rapid.SampledFrom([]byte{0x10, 0x18, 0x28, 0x40, 0x78, 0x50}).Draw(rt, "stat")
	p := []byte{0x3e, stat, 0xe0, 0x41, 0x3e, byte(rapid.IntRange(0, 153).Draw(rt, "lyc")), 0xe0, 0x45,
		0x3e, byte(rapid.IntRange(0xf0, 0xff).Draw(rt, "tma")), 0xe0, 0x06, 0x3e, rapid.SampledFrom([]byte{0x05, 0x06, 0x07, 0x04}).Draw(rt, "tac"), 0xe0, 0x07,
		0x3e, ie, 0xe0, 0xff}
	loop := len(p)
	n := rapid.IntRange(1, 6).Draw(rt, "body")
	for i := 0; i < n; i++ {
		switch rapid.IntRange(0, 4).Draw(rt, "k") {
		case 0:
			p = append(p, 0x3e, rapid.Byte().Draw(rt, "if")&0x1f, 0xe0, 0x0f) // raise several requests at once
		case 1:
			p = append(p, 0xfb, 0x76)
		case 2:
			p = append(p, 0xfb, 0x00, 0x00)
		case 3:
			p = append(p, 0xf3, 0x3e, rapid.Byte().Draw(rt, "if2")&0x1f, 0xe0, 0x0f, 0xfb)
		default:
			p = append(p, 0x04, 0x78, 0xe0, 0x01) // INC B; LD A,B; LDH (01),A
		}
	}
	back := len(p) + 2 - loop
	p = append(p, 0x18, byte(0x100-back))
	s.Program = p
	return s
}

func c24GenInputs(rt *rapid.T, frames int) []sysInput {
	return rapid.SliceOfN(rapid.Custom(func(rt *rapid.T) sysInput {
		return sysInput{Frame: rapid.IntRange(0, frames-1).Draw(rt, "f"), Button: rapid.IntRange(0, 7).Draw(rt, "b"), Press: rapid.Bool().Draw(rt, "p")}
	}), 0, 8).Draw(rt, "inputs")
}

func TestC24(t *testing.T) {
	c := vf.New(t, "C24", "rapid cases: a ROM of the repository's test corpus (every non-empty image) or a generated register-hammering program on one of 7 cartridge types, x video output on/off x audio output on/off x 0-8 button events at drawn frames x a drawn number of frames; "+
		"each case runs twice in-process and once in a child process; per-frame digests of the complete observable state (registers, IF/IE, timer, LCD and sound registers, VRAM, WRAM, HRAM, OAM, cartridge RAM, clock, frame image), all audio samples and serial bytes are compared. "+
		"Non-trivial: at least 3 frames ran. Distinct = hash of the case.")
	defer c.Flush()
	c.RunReplays()
	roms := c24Corpus()
	c.Extra("corpus_roms", len(roms))

	// every ROM of the corpus once, partitioned across the shards
	c.Sub("corpus", func(t *testing.T) {
		var n int64
		for i, f := range roms {
			if !c.Env.Mine(i) {
				continue
			}
			if !c.Env.Thorough() && i%4 != int(c.Env.Seed)%4 {
				continue // quick: a quarter of the corpus, rotating with the seed
			}
			cas := sysCase{File: f, Video: i%2 == 0, Audio: i%3 == 0, Frames: c.Env.Pick(20, 120), Inputs: []sysInput{{Frame: 3, Button: 7, Press: true}, {Frame: 5, Button: 7, Press: false}, {Frame: 9, Button: 4, Press: true}}}
			_, sig, err := c24Run(cas, true)
			n++
			c.Sample("corpus", cas)
			if err != nil {
				if known, first := c.FailFirst("determinism", sig, err.Error(), cas); !known && first {
					t.Errorf("%v", err)
				}
			}
		}
		c.Bulk("corpus", n, n)
	})

	// interrupt storms: every source enabled, several requests pending at the same boundary, handlers that
	// log to the serial port - the order in which simultaneous requests are served must repeat exactly
	c.Rapid("irq-storm", 160, 3200, func(rt *rapid.T) {
		cas := sysCase{Image: c24StormImage(rt), Video: rapid.Bool().Draw(rt, "video"), Audio: rapid.IntRange(0, 3).Draw(rt, "audio") == 0, Frames: rapid.IntRange(3, c.Env.Pick(30, 120)).Draw(rt, "frames")}
		info, sig, err := c24Run(cas, true)
		c.Case("irq-storm", vf.Hash(cas), info.Frames >= 3 && info.Serial, func() interface{} { return cas })
		if err != nil {
			if !c.Fail("determinism", sig, err.Error(), cas) {
				rt.Fatalf("%v", err)
			}
		}
	})

	c.Rapid("cases", 640, 6400, func(rt *rapid.T) {
		var cas sysCase
		class := "rom"
		if len(roms) > 0 && rapid.IntRange(0, 2).Draw(rt, "kind") == 0 {
			cas.File = rapid.SampledFrom(roms).Draw(rt, "rom")
		} else {
			s := c11Spec{CartType: rapid.SampledFrom(c26CartTypes).Draw(rt, "type"), RomSize: uint8(rapid.IntRange(0, 2).Draw(rt, "romsize")), RamSize: rapid.SampledFrom([]uint8{0, 0, 0, 1, 2, 3}).Draw(rt, "ram"), Len: -1, Far: true}
			s.Program = c11GenProgram(rt)
			s.Head = make([]byte, 0x68)
			for v := 0x40; v <= 0x60; v += 8 {
				s.Head[v] = 0xd9
			}
			cas.Image = &s
			class = "program"
		}
		cas.Video = rapid.Bool().Draw(rt, "video")
		cas.Audio = rapid.Bool().Draw(rt, "audio")
		cas.Frames = rapid.IntRange(1, c.Env.Pick(40, 240)).Draw(rt, "frames")
		cas.Inputs = c24GenInputs(rt, cas.Frames)
		if cas.DebugLCD = rapid.IntRange(0, 4).Draw(rt, "debug-lcd") == 0; cas.DebugLCD {
			c.Class("configured-with-the-lcd-debug-option", 1)
		}
		info, sig, err := c24Run(cas, true)
		if cas.Video {
			class += "-video"
		}
		if cas.Audio {
			class += "-audio"
		}
		if info.Frames == 0 {
			class += "-no-frames"
		}
		if info.Serial {
			c.Class("with-serial-output", 1)
		}
		c.Case(class, vf.Hash(cas), info.Frames >= 3, func() interface{} { return cas })
		if err != nil {
			if !c.Fail("determinism", sig, err.Error(), cas) {
				rt.Fatalf("%v", err)
			}
		}
	})
}
