package checks

import (
	"encoding/json"
	"fmt"
	"sort"
	"testing"

	"github.com/scottyw/tetromino/gameboy/memory"
	"pgregory.net/rapid"

	"verifharness/machine"
	"verifharness/vf"
)

// C10 — the MBC3 real-time clock keeps time and latches correctly.
//
// Reference model (Pan Docs "MBC3", "The Clock Counter Registers", "Latch
// Clock Data"): live counters S M H (6, 6, 5 bits), a 9-bit day counter, the
// day-carry and halt flags, a sub-second count of machine cycles (1 048 576
// per second), and a latched copy taken when 01 is written to 6000-7FFF
// directly after 00. Registers 08-0C are selected through 4000-5FFF and
// accessed through A000-BFFF while RAM/timer access is enabled.
//
// What the statement leaves open is unknown to the model and never compared:
// the power-on values (until set), the latched copy before the first latch,
// counters after an increment that found S/M/H out of range (only the width
// invariants are kept), and the effect of latch writes other than 00/01.

type c10Op struct {
	K string `json:"k"`           // "w" bus write, "r" bus read, "adv" run N cycles, "set" hook: set live state, "near" hook: N cycles before the next second, "step" hook: one increment, "get" hook: compare live state
	A uint16 `json:"a,omitempty"` // bus address
	V uint8  `json:"v,omitempty"` // bus value
	N int    `json:"n,omitempty"` // cycles
	// "set"
	S     uint8  `json:"s,omitempty"`
	M     uint8  `json:"m,omitempty"`
	H     uint8  `json:"h,omitempty"`
	D     uint16 `json:"d,omitempty"`
	Carry bool   `json:"carry,omitempty"`
	Halt  bool   `json:"halt,omitempty"`
	T     int    `json:"t,omitempty"` // sub-second count
}

type c10Case struct {
	Cart uint8   `json:"cart"`
	Ops  []c10Op `json:"ops"`
}

const c10Second = 1048576

type c10Clock struct {
	s, m, h, d           int
	carry, halt          bool
	sK, mK, hK, dlK, dhK bool // known flags (day: low 8 bits / bit 8)
	cK, haltK            bool
}

func (c *c10Clock) forgetCounters() {
	c.sK, c.mK, c.hK, c.dlK, c.dhK, c.cK = false, false, false, false, false, false
}

type c10Model struct {
	live       c10Clock
	lat        c10Clock
	ticks      int
	ticksK     bool
	armed      bool // the last write to the latch register was 00
	armedK     bool
	en         bool
	sel        int
	seconds    int // increments performed
	rtcWrites  int
	latches    int
	nontrivial bool
	feat       map[string]bool
}

func c10NewModel() *c10Model { return &c10Model{feat: map[string]bool{}} }

// increment is the documented carry chain for one elapsed second.
func (m *c10Model) increment() {
	l := &m.live
	m.seconds++
	if !(l.sK && l.mK && l.hK && l.dlK && l.dhK && l.cK) {
		// a carry out of an unknown counter: keep it simple, nothing is known afterwards
		// (a known in-range S below 59 still only moves S)
		if l.sK && l.s < 59 {
			l.s++
			return
		}
		l.forgetCounters()
		return
	}
	if l.s >= 60 || l.m >= 60 || l.h >= 24 {
		m.feat["increment-out-of-range"] = true
		l.forgetCounters()
		return
	}
	l.s++
	if l.s == 60 {
		l.s = 0
		m.feat["minute-carry"] = true
		l.m++
		if l.m == 60 {
			l.m = 0
			m.feat["hour-carry"] = true
			l.h++
			if l.h == 24 {
				l.h = 0
				m.feat["day-carry"] = true
				l.d++
				if l.d == 512 {
					l.d = 0
					l.carry = true
					m.feat["day-overflow"] = true
				}
			}
		}
	}
}

func (m *c10Model) advance(n int) {
	if n <= 0 {
		return
	}
	l := &m.live
	if l.haltK && l.halt {
		m.feat["advance-while-halted"] = true
		return
	}
	if !l.haltK || !m.ticksK {
		l.forgetCounters()
		return
	}
	m.ticks += n
	for m.ticks >= c10Second {
		m.ticks -= c10Second
		m.increment()
		m.feat["second-elapsed"] = true
	}
}

func (m *c10Model) rtcSelected() bool { return m.sel >= 0x08 && m.sel <= 0x0c }

func (m *c10Model) busWrite(a uint16, v uint8) {
	switch {
	case a < 0x2000:
		old := m.en
		m.en = v&0x0f == 0x0a
		if old != m.en {
			m.feat["enable-toggle"] = true
		}
	case a >= 0x4000 && a < 0x6000:
		m.sel = int(v)
	case a >= 0x6000 && a < 0x8000:
		switch v {
		case 0x00:
			m.armed, m.armedK = true, true
		case 0x01:
			if !m.armedK {
				m.lat = c10Clock{} // may or may not have latched
				m.feat["latch-unknown"] = true
			} else if m.armed {
				m.lat = m.live
				m.latches++
				m.feat["latch"] = true
			} else {
				m.feat["lone-1-no-latch"] = true
			}
			m.armed, m.armedK = false, true
		default:
			m.armedK = false
		}
	case a >= 0xa000 && a < 0xc000 && m.en && m.rtcSelected():
		l := &m.live
		m.rtcWrites++
		switch m.sel {
		case 0x08:
			l.s, l.sK = int(v&0x3f), true
			m.ticks, m.ticksK = 0, true
		case 0x09:
			l.m, l.mK = int(v&0x3f), true
		case 0x0a:
			l.h, l.hK = int(v&0x1f), true
		case 0x0b:
			l.d, l.dlK = l.d&0x100|int(v), true
		case 0x0c:
			l.d, l.dhK = l.d&0xff|int(v&1)<<8, true
			l.halt, l.haltK = v&0x40 != 0, true
			l.carry, l.cK = v&0x80 != 0, true
			if l.halt {
				m.feat["halt-set"] = true
			}
		}
		if l.s >= 60 || l.m >= 60 || l.h >= 24 {
			m.feat["out-of-range-written"] = true
		}
	}
}

// busRead returns the expected value and the mask of bits the model predicts.
func (m *c10Model) busRead() (want, mask uint8) {
	l := &m.lat
	switch m.sel {
	case 0x08:
		if l.sK {
			return uint8(l.s & 0x3f), 0xff
		}
		return 0, 0xc0
	case 0x09:
		if l.mK {
			return uint8(l.m & 0x3f), 0xff
		}
		return 0, 0xc0
	case 0x0a:
		if l.hK {
			return uint8(l.h & 0x1f), 0xff
		}
		return 0, 0xe0
	case 0x0b:
		if l.dlK {
			return uint8(l.d & 0xff), 0xff
		}
		return 0, 0
	}
	mask = 0x3e // unused control bits read 0
	if l.dhK {
		mask |= 0x01
		want |= uint8(l.d >> 8 & 1)
	}
	if l.haltK {
		mask |= 0x40
		if l.halt {
			want |= 0x40
		}
	}
	if l.cK {
		mask |= 0x80
		if l.carry {
			want |= 0x80
		}
	}
	return want, mask
}

// ---------------------------------------------------------------------------

var c10Shared *machine.M
var c10ROMs = map[uint8][]byte{}

// c10Mapper builds a fresh MBC3 + clock behind a fresh address decoder; the
// other components (which the clock does not involve) are shared.
func c10Mapper(cart uint8) *memory.Mapper {
	if c10Shared == nil {
		c10Shared = machine.NewHW(machine.MakeROM(0, 0, 0), nil, false)
	}
	s := c10Shared
	rom, ok := c10ROMs[cart]
	if !ok {
		ram := uint8(3)
		if cart == 0x0f {
			ram = 0
		}
		rom = machine.MakeROM(cart, 1, ram)
		c10ROMs[cart] = rom
	}
	return memory.New(rom, s.I, s.O, s.P, s.C, s.S, s.T, s.A)
}

var c10RegNames = map[int]string{0x08: "seconds", 0x09: "minutes", 0x0a: "hours", 0x0b: "day-low", 0x0c: "control"}

// c10SecondsDiag names a seconds mismatch by its direction.
func c10SecondsDiag(m *c10Model, got, want int, fallback string) string {
	switch {
	case got == (want+1)%60 && m.live.haltK && m.live.halt:
		return "rtc-advanced-while-halted"
	case got == (want+1)%60:
		return "rtc-second-early"
	case got == (want+59)%60:
		return "rtc-second-late"
	}
	return fallback
}

// c10Compare checks the live counters (through the hook) against the model.
func c10Compare(mp *memory.Mapper, m *c10Model, prefix string) (string, error) {
	g := mp.VerifRTCGet()
	l := &m.live
	if g.S > 0x3f || g.M > 0x3f || g.H > 0x1f || g.D > 0x1ff {
		return "rtc-width", fmt.Errorf("live counters outside their widths: %+v", g)
	}
	switch {
	case l.sK && int(g.S) != l.s:
		return c10SecondsDiag(m, int(g.S), l.s, prefix+"-seconds"), fmt.Errorf("live seconds %d want %d (%+v)", g.S, l.s, g)
	case l.mK && int(g.M) != l.m:
		return prefix + "-minutes", fmt.Errorf("live minutes %d want %d (%+v)", g.M, l.m, g)
	case l.hK && int(g.H) != l.h:
		return prefix + "-hours", fmt.Errorf("live hours %d want %d (%+v)", g.H, l.h, g)
	case l.dlK && l.dhK && int(g.D) != l.d:
		return prefix + "-day", fmt.Errorf("live day %d want %d (%+v)", g.D, l.d, g)
	case l.cK && g.Carry != l.carry:
		return prefix + "-carry-flag", fmt.Errorf("live day-carry %v want %v (%+v)", g.Carry, l.carry, g)
	case l.haltK && g.Halt != l.halt:
		return prefix + "-halt-flag", fmt.Errorf("live halt %v want %v (%+v)", g.Halt, l.halt, g)
	}
	return "", nil
}

func c10Run(c c10Case) (sig string, err error) {
	step := -1
	sig, err = c10RunInner(c, &step)
	if sig == "panic" {
		sig = "rtc-panic"
		err = fmt.Errorf("%v [op %d]", err, step)
	}
	return sig, err
}

func c10RunInner(c c10Case, step *int) (sig string, err error) {
	defer vf.Recover(&sig, &err)
	if c.Cart != 0x0f && c.Cart != 0x10 {
		return "bad-case", fmt.Errorf("case outside the domain: cart %02x", c.Cart)
	}
	mp := c10Mapper(c.Cart)
	m := c10NewModel()
	return c10Exec(mp, m, c, step)
}

func c10Exec(mp *memory.Mapper, m *c10Model, c c10Case, step *int) (string, error) {
	for i, op := range c.Ops {
		*step = i
		switch op.K {
		case "set":
			if op.S > 0x3f || op.M > 0x3f || op.H > 0x1f || op.D > 0x1ff || op.T < 0 || op.T >= c10Second {
				return "bad-case", fmt.Errorf("op %d: set outside the register widths", i)
			}
			mp.VerifRTCSet(memory.VerifRTC{S: op.S, M: op.M, H: op.H, D: op.D, Carry: op.Carry, Halt: op.Halt, Ticks: op.T})
			m.live = c10Clock{s: int(op.S), m: int(op.M), h: int(op.H), d: int(op.D), carry: op.Carry, halt: op.Halt,
				sK: true, mK: true, hK: true, dlK: true, dhK: true, cK: true, haltK: true}
			m.ticks, m.ticksK = op.T, true
		case "near":
			if op.N < 1 || op.N > c10Second {
				return "bad-case", fmt.Errorf("op %d: near outside 1..2^20", i)
			}
			g := mp.VerifRTCGet()
			g.Ticks = c10Second - op.N
			mp.VerifRTCSet(g)
			m.ticks, m.ticksK = c10Second-op.N, true
		case "adv":
			if op.N < 0 || op.N > 4*c10Second {
				return "bad-case", fmt.Errorf("op %d: adv outside 0..4*2^20", i)
			}
			for k := 0; k < op.N; k++ {
				mp.EndMachineCycle()
			}
			m.advance(op.N)
		case "step":
			mp.VerifRTCStep()
			m.increment()
		case "get":
			if s, e := c10Compare(mp, m, "rtc-live"); e != nil {
				return s, fmt.Errorf("op %d: %v", i, e)
			}
		case "w":
			if op.A >= 0xa000 && op.A < 0xc000 {
				// disabled accesses and RAM banks other than 0 are C09's; clock writes while disabled are not generated
				if !m.en || !(m.rtcSelected() || m.sel == 0) {
					continue
				}
			} else if op.A >= 0x8000 {
				continue
			}
			mp.Write(op.A, op.V)
			m.busWrite(op.A, op.V)
		case "r":
			if op.A < 0xa000 || op.A >= 0xc000 || !m.en || !(m.rtcSelected() || m.sel == 0) {
				continue
			}
			got := mp.Read(op.A)
			if !m.rtcSelected() {
				continue
			}
			want, mask := m.busRead()
			if m.lat.sK && (m.seconds > 0 || m.rtcWrites > 0) {
				m.nontrivial = true
			}
			if got&mask == want&mask {
				continue
			}
			reg := c10RegNames[m.sel]
			where := fmt.Errorf("op %d: read of clock register %02x (%s) at %04x = %02x want %02x (mask %02x; %d latch(es), live %+v)", i, m.sel, reg, op.A, got, want, mask, m.latches, m.live)
			// does it show the live counters instead of the latched copy?
			lm := *m
			lm.lat = m.live
			if lw, lmask := lm.busRead(); lmask == mask && got&mask == lw&mask {
				return "rtc-read-shows-live-not-latched", where
			}
			switch m.sel {
			case 0x08:
				return c10SecondsDiag(m, int(got), int(want), "rtc-read-seconds"), where
			case 0x0c:
				d := (got ^ want) & mask
				switch {
				case d&0x3e != 0:
					return "rtc-control-unused-bits", where
				case d&0x40 != 0:
					return "rtc-read-halt-flag", where
				case d&0x80 != 0:
					return "rtc-read-carry-flag", where
				}
				return "rtc-read-day-high", where
			}
			return "rtc-read-" + reg, where
		default:
			return "bad-case", fmt.Errorf("op %d: unknown kind %q", i, op.K)
		}
		// width invariants hold after every operation
		if g := mp.VerifRTCGet(); g.S > 0x3f || g.M > 0x3f || g.H > 0x1f || g.D > 0x1ff {
			return "rtc-width", fmt.Errorf("op %d (%s): live counters outside their widths: %+v", i, op.K, g)
		}
	}
	return "", nil
}

// c10Analyse runs the model alone.
func c10Analyse(c c10Case) (feats []string, nontrivial bool) {
	m := c10NewModel()
	for _, op := range c.Ops {
		switch op.K {
		case "set":
			m.live = c10Clock{s: int(op.S), m: int(op.M), h: int(op.H), d: int(op.D), carry: op.Carry, halt: op.Halt,
				sK: true, mK: true, hK: true, dlK: true, dhK: true, cK: true, haltK: true}
			m.ticks, m.ticksK = op.T, true
		case "near":
			m.ticks, m.ticksK = c10Second-op.N, true
		case "adv":
			m.advance(op.N)
		case "step":
			m.increment()
		case "w":
			if op.A >= 0xa000 && (!m.en || !(m.rtcSelected() || m.sel == 0)) {
				continue
			}
			m.busWrite(op.A, op.V)
		case "r":
			if m.en && m.rtcSelected() && m.lat.sK && (m.seconds > 0 || m.rtcWrites > 0) {
				m.nontrivial = true
				m.feat["read-after-latch-after-change"] = true
			}
		}
	}
	for f := range m.feat {
		feats = append(feats, f)
	}
	sort.Strings(feats)
	return feats, m.nontrivial
}

func init() {
	for _, chk := range []string{"step", "timebase", "hist"} {
		vf.RegisterReplay("C10/"+chk, func(raw json.RawMessage) (string, error) {
			var c c10Case
			if err := json.Unmarshal(raw, &c); err != nil {
				return "", err
			}
			return c10Run(c)
		})
	}
}

// c10Enum: known findings are reported at once; of the others the first case
// per signature is kept and one of them (chosen by shard) reported at the end.
type c10Enum struct {
	c     *vf.Collector
	check string
	first map[string]c10Case
	msg   map[string]string
}

func c10NewEnum(c *vf.Collector, check string) *c10Enum {
	return &c10Enum{c: c, check: check, first: map[string]c10Case{}, msg: map[string]string{}}
}

func (e *c10Enum) fail(sig string, err error, cas c10Case) {
	if e.c.OpenKnown(sig) {
		e.c.Fail(e.check, sig, err.Error(), cas)
		return
	}
	e.c.Class("violation:"+sig, 1)
	if _, ok := e.first[sig]; !ok {
		e.first[sig], e.msg[sig] = cas, err.Error()
	}
}

func (e *c10Enum) finish(t *testing.T) {
	if len(e.first) == 0 {
		return
	}
	var sigs []string
	for s := range e.first {
		sigs = append(sigs, s)
	}
	sort.Strings(sigs)
	s := sigs[e.c.Env.Shard%len(sigs)]
	e.c.Fail(e.check, s, e.msg[s], e.first[s])
	for _, s := range sigs {
		t.Errorf("%s: sig=%s %s", e.check, s, e.msg[s])
	}
}

func c10StepCase(s, m, h, d int, carry bool) c10Case {
	return c10Case{Cart: 0x10, Ops: []c10Op{{K: "set", S: uint8(s), M: uint8(m), H: uint8(h), D: uint16(d), Carry: carry}, {K: "step"}, {K: "get"}}}
}

func TestC10(t *testing.T) {
	c := vf.New(t, "C10", "exhaustive one-step: every in-range counter state (s<60, m<60, h<24, all 512 days, carry) through the increment hook compared with the documented carry chain, every state with an out-of-range s/m/h (6/6/5 bits) for the width invariants; "+
		"time base: real Mapper.EndMachineCycle runs of k*1048576-1 and +1 cycles, halted and not, from hook-set and bus-written starting points; rapid histories over {advance, place the sub-second count near the boundary, latch 00/01 in any order, select, read, write, halt, enable/disable, RAM traffic}. "+
		"Non-trivial: (step) the increment carries out of seconds or starts out of range; (time base) all; (history) a clock register is read after a latch that follows an elapsed second or a clock write. Distinct = the state / hash of the case.")
	defer c.Flush()
	c.RunReplays()
	thorough := c.Env.Thorough()

	c.Sub("one-step", func(t *testing.T) {
		en := c10NewEnum(c, "step")
		defer en.finish(t)
		mp := c10Mapper(0x10)
		var n, nt int64
		fast := func(s, m, h, d int, carry bool) {
			n++
			mp.VerifRTCSet(memory.VerifRTC{S: uint8(s), M: uint8(m), H: uint8(h), D: uint16(d), Carry: carry})
			mp.VerifRTCStep()
			g := mp.VerifRTCGet()
			inRange := s < 60 && m < 60 && h < 24
			ok := g.S <= 0x3f && g.M <= 0x3f && g.H <= 0x1f && g.D <= 0x1ff
			if inRange {
				// the documented carry chain, written out directly (the slow path re-derives it through the model)
				ws, wm, wh, wd, wc := s+1, m, h, d, carry
				if ws == 60 {
					ws, wm = 0, wm+1
					nt++
					if wm == 60 {
						wm, wh = 0, wh+1
						if wh == 24 {
							wh, wd = 0, wd+1
							if wd == 512 {
								wd, wc = 0, true
							}
						}
					}
				}
				ok = ok && int(g.S) == ws && int(g.M) == wm && int(g.H) == wh && int(g.D) == wd && g.Carry == wc && !g.Halt
			} else {
				nt++
			}
			if ok {
				return
			}
			cas := c10StepCase(s, m, h, d, carry)
			sig, err := c10Run(cas)
			if err == nil {
				sig, err = "rtc-step-oracle-disagreement", fmt.Errorf("fast and model oracles disagree on %+v -> %+v", cas.Ops[0], g)
			}
			if len(sig) > 9 && sig[:9] == "rtc-live-" {
				sig = "rtc-step-" + sig[9:]
			}
			en.fail(sig, err, cas)
		}
		quickDays := map[int]bool{0: true, 1: true, 2: true, 127: true, 128: true, 254: true, 255: true, 256: true, 257: true, 383: true, 510: true, 511: true}
		for d := 0; d < 512; d++ {
			if !c.Env.Mine(d) {
				continue
			}
			// in range: everything
			for h := 0; h < 24; h++ {
				for m := 0; m < 60; m++ {
					for s := 0; s < 60; s++ {
						fast(s, m, h, d, false)
						fast(s, m, h, d, true)
					}
				}
			}
			// out of range: every 6/6/5-bit value with at least one counter out of range (quick: 12 days)
			if !thorough && !quickDays[d] {
				continue
			}
			for h := 0; h < 32; h++ {
				for m := 0; m < 64; m++ {
					for s := 0; s < 64; s++ {
						if s < 60 && m < 60 && h < 24 {
							continue
						}
						fast(s, m, h, d, d&1 == 0)
					}
				}
			}
		}
		c.Sample("one-step", c10StepCase(59, 59, 23, 511, false))
		c.Sample("one-step", c10StepCase(61, 3, 31, 256, true))
		c.Bulk("one-step", n, nt)
		c.Exhaustive("increment hook from every in-range state: s<60 x m<60 x h<24 x 512 days x carry (88 473 600 states)")
		if thorough {
			c.Exhaustive("width invariants from every 6/6/5-bit s/m/h state with a counter out of range x 512 days")
		} else {
			c.Exhaustive("width invariants from every 6/6/5-bit s/m/h state with a counter out of range x 12 boundary days")
		}
	})

	c.Sub("time-base", func(t *testing.T) {
		en := c10NewEnum(c, "timebase")
		defer en.finish(t)
		var n int64
		idx := 0
		ks := []int{1, 2}
		if thorough {
			ks = []int{1, 2, 3}
		}
		for _, k := range ks {
			for _, halted := range []bool{false, true} {
				for _, start := range []string{"set0", "set-mid", "write-seconds", "near"} {
					for _, s0 := range []uint8{0, 58, 59} {
						idx++
						if !c.Env.Mine(idx) {
							continue
						}
						var ops []c10Op
						total := k * c10Second
						switch start {
						case "set0":
							ops = append(ops, c10Op{K: "set", S: s0, M: 59, H: 23, D: 511, Halt: halted})
						case "set-mid":
							ops = append(ops, c10Op{K: "set", S: s0, M: 7, H: 5, D: 300, Halt: halted, T: 600000})
							total -= 600000
						case "write-seconds":
							// bus only: a seconds write restarts the sub-second count
							ops = append(ops, c10Op{K: "set", S: 1, M: 2, H: 3, D: 4, T: 999999},
								c10Op{K: "w", A: 0x0000, V: 0x0a}, c10Op{K: "w", A: 0x4000, V: 0x0c}, c10Op{K: "w", A: 0xa000, V: map[bool]uint8{false: 0, true: 0x40}[halted]},
								c10Op{K: "w", A: 0x4000, V: 0x08}, c10Op{K: "w", A: 0xa000, V: s0})
						case "near":
							ops = append(ops, c10Op{K: "set", S: s0, M: 59, H: 0, D: 255, Halt: halted, T: 5}, c10Op{K: "near", N: 1000})
							total = (k-1)*c10Second + 1000
						}
						latchRead := []c10Op{{K: "w", A: 0x0000, V: 0x0a}, {K: "w", A: 0x4000, V: 0x08}, {K: "w", A: 0x6000, V: 0x00}, {K: "w", A: 0x6000, V: 0x01}, {K: "r", A: 0xa000},
							{K: "w", A: 0x4000, V: 0x09}, {K: "r", A: 0xa000}, {K: "w", A: 0x4000, V: 0x0c}, {K: "r", A: 0xbfff}}
						ops = append(ops, c10Op{K: "adv", N: total - 1}, c10Op{K: "get"})
						ops = append(ops, latchRead...)
						ops = append(ops, c10Op{K: "adv", N: 1}, c10Op{K: "get"})
						ops = append(ops, latchRead...)
						ops = append(ops, c10Op{K: "adv", N: 1}, c10Op{K: "get"})
						cas := c10Case{Cart: 0x10, Ops: ops}
						n++
						c.Sample("time-base", cas)
						if sig, err := c10Run(cas); err != nil {
							en.fail(sig, err, cas)
						}
					}
				}
			}
		}
		c.Bulk("time-base", n, n)
	})

	c.Rapid("histories", 20000, 600000, func(rt *rapid.T) {
		cas := c10GenCase(rt)
		feats, nontriv := c10Analyse(cas)
		c.Case("history", vf.Hash(cas), nontriv, func() interface{} { return cas })
		for _, f := range feats {
			c.Class("history:"+f, 1)
		}
		if sig, err := c10Run(cas); err != nil {
			if !c.OpenKnown(sig) && len(cas.Ops) <= 24 {
				cas, err = c10Minimise(cas, sig, err) // once rapid has made the case small, finish the job
			}
			if !c.Fail("hist", sig, err.Error(), cas) {
				rt.Fatalf("sig=%s %v", sig, err)
			}
		}
	})
}

// c10Minimise drops operations one at a time while the failure keeps its
// signature (rapid cannot shrink inside the generator's operation groups).
func c10Minimise(cas c10Case, sig string, err error) (c10Case, error) {
	for again := true; again; {
		again = false
		for i := len(cas.Ops) - 1; i >= 0; i-- {
			try := c10Case{Cart: cas.Cart, Ops: append(append([]c10Op{}, cas.Ops[:i]...), cas.Ops[i+1:]...)}
			if s, e := c10Run(try); e != nil && s == sig {
				cas, err, again = try, e, true
			}
		}
	}
	return cas, err
}

func c10GenCase(rt *rapid.T) c10Case {
	window := rapid.SampledFrom([]uint16{0xa000, 0xa000, 0xa001, 0xb123, 0xbfff})
	regGen := rapid.IntRange(0x08, 0x0c)
	valFor := func(rt *rapid.T, reg int) uint8 {
		// mostly in range and near the carry points, sometimes any byte
		if rapid.IntRange(0, 9).Draw(rt, "anyval") == 0 {
			return rapid.Byte().Draw(rt, "val")
		}
		switch reg {
		case 0x08, 0x09:
			return rapid.SampledFrom([]uint8{0, 1, 30, 58, 59, 59}).Draw(rt, "val")
		case 0x0a:
			return rapid.SampledFrom([]uint8{0, 1, 12, 22, 23, 23}).Draw(rt, "val")
		case 0x0b:
			return rapid.SampledFrom([]uint8{0, 1, 0x7f, 0x80, 0xfe, 0xff, 0xff}).Draw(rt, "val")
		}
		return rapid.SampledFrom([]uint8{0x00, 0x01, 0x40, 0x41, 0x80, 0x81, 0xc0, 0xc1, 0x3e, 0xff, 0x00, 0x01}).Draw(rt, "val")
	}
	setGen := rapid.Custom(func(rt *rapid.T) c10Op {
		return c10Op{K: "set",
			S:     rapid.SampledFrom([]uint8{0, 30, 58, 59, 59}).Draw(rt, "s"),
			M:     rapid.SampledFrom([]uint8{0, 58, 59, 59}).Draw(rt, "m"),
			H:     rapid.SampledFrom([]uint8{0, 22, 23, 23}).Draw(rt, "h"),
			D:     rapid.SampledFrom([]uint16{0, 1, 255, 256, 510, 511, 511}).Draw(rt, "d"),
			Carry: rapid.IntRange(0, 3).Draw(rt, "carry") == 0,
			Halt:  rapid.IntRange(0, 5).Draw(rt, "halt") == 0,
			T:     rapid.SampledFrom([]int{0, 1, 500000, c10Second - 40, c10Second - 2, c10Second - 1}).Draw(rt, "t")}
	})
	chunkGen := rapid.Custom(func(rt *rapid.T) []c10Op {
		switch rapid.IntRange(0, 15).Draw(rt, "op") {
		case 0:
			return []c10Op{setGen.Draw(rt, "set")}
		case 1, 2:
			return []c10Op{{K: "near", N: rapid.IntRange(1, 40).Draw(rt, "n")}}
		case 3, 4, 5:
			return []c10Op{{K: "adv", N: rapid.IntRange(0, 60).Draw(rt, "n")}}
		case 6: // proper latch
			return []c10Op{{K: "w", A: 0x6000, V: 0}, {K: "w", A: rapid.SampledFrom([]uint16{0x6000, 0x7fff}).Draw(rt, "addr"), V: 1}}
		case 7: // lone latch-register write
			return []c10Op{{K: "w", A: rapid.SampledFrom([]uint16{0x6000, 0x7fff}).Draw(rt, "addr"), V: uint8(rapid.IntRange(0, 1).Draw(rt, "v"))}}
		case 8, 9: // select and read
			return []c10Op{{K: "w", A: 0x4000, V: uint8(regGen.Draw(rt, "reg"))}, {K: "r", A: window.Draw(rt, "addr")}}
		case 10: // read whatever is selected
			return []c10Op{{K: "r", A: window.Draw(rt, "addr")}}
		case 11, 12: // select and write
			reg := regGen.Draw(rt, "reg")
			return []c10Op{{K: "w", A: 0x4000, V: uint8(reg)}, {K: "w", A: window.Draw(rt, "addr"), V: valFor(rt, reg)}}
		case 13: // halt on/off keeping the day bit and carry as they are written here
			v := rapid.SampledFrom([]uint8{0x40, 0x00, 0x41, 0x01, 0xc0, 0x80}).Draw(rt, "v")
			return []c10Op{{K: "w", A: 0x4000, V: 0x0c}, {K: "w", A: 0xa000, V: v}}
		case 14: // RAM/timer enable register
			v := rapid.Byte().Draw(rt, "v")
			if rapid.IntRange(0, 2).Draw(rt, "enabling") > 0 {
				v = v&0xf0 | 0x0a
			}
			return []c10Op{{K: "w", A: rapid.SampledFrom([]uint16{0x0000, 0x1fff}).Draw(rt, "addr"), V: v}}
		default: // RAM bank 0 traffic and ROM bank writes: no business with the clock
			return []c10Op{{K: "w", A: 0x4000, V: 0x00}, {K: "w", A: window.Draw(rt, "addr"), V: rapid.Byte().Draw(rt, "v")}, {K: "w", A: 0x2000, V: rapid.Byte().Draw(rt, "bank")}}
		}
	})
	ops := []c10Op{{K: "w", A: 0x0000, V: 0x0a}}
	if rapid.IntRange(0, 7).Draw(rt, "from-power-on") != 0 {
		ops = append(ops, setGen.Draw(rt, "initial"))
	}
	for _, chunk := range rapid.SliceOfN(rapid.SliceOfN(chunkGen, 1, 10), 1, 8).Draw(rt, "ops") {
		for _, ch := range chunk {
			ops = append(ops, ch...)
		}
	}
	ops = append(ops, c10Op{K: "get"})
	return c10Case{Cart: rapid.SampledFrom([]uint8{0x10, 0x10, 0x0f}).Draw(rt, "cart"), Ops: ops}
}
