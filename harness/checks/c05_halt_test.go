package checks

import (
	"encoding/json"
	"testing"

	"pgregory.net/rapid"

	"verifharness/refcpu"
	"verifharness/vf"
)

// C05 — HALT and the halt bug. Oracle: the lock-step reference: while halted
// nothing changes; IME=1: the request is dispatched in 6 cycles with the
// address after HALT pushed; IME=0 and nothing pending at HALT: wake-up within
// two cycles without dispatch or IF change, then the following instruction;
// IME=0 with a request pending: no idling and the following byte is executed
// twice (checked against the implementation itself executing the duplicated
// byte from PC-1, so instruction semantics stay C01's business).

var c05Rig *cpuRig

func c05Run(cas *lsCase) (st lsStats, sig string, err error) {
	defer vf.Recover(&sig, &err)
	if c05Rig == nil {
		c05Rig = newLockstepRig()
	}
	return c05Rig.lockstep(cas, lsPolicy{allowIF: true, allowHalt: true, checkIRQ: true})
}

func init() {
	vf.RegisterReplay("C05/halt", func(raw json.RawMessage) (string, error) {
		var c lsCase
		if err := json.Unmarshal(raw, &c); err != nil {
			return "", err
		}
		_, sig, err := c05Run(&c)
		return sig, err
	})
}

var c05Roms = []struct {
	path    string
	mooneye bool
	frames  int
}{
	{"blargg/halt_bug.gb", false, 400},
	{"mts-20221022-1430-8d742b9/acceptance/halt_ime0_ei.gb", true, 300},
	{"mts-20221022-1430-8d742b9/acceptance/halt_ime0_nointr_timing.gb", true, 300},
	{"mts-20221022-1430-8d742b9/acceptance/halt_ime1_timing.gb", true, 300},
}

func c05Case(ime bool, pendingAtHalt bool, src int, opi int, idle int) lsCase {
	cas := lsCase{R: refcpu.Regs{A: 0x5a, F: 0x50, B: 0xd4, C: 0x90, D: 0xd5, E: 0x20, H: 0xd6, L: 0x30, SP: 0xdfe0, PC: 0xc000},
		IME: ime, IE: 1 << uint(src), MaxCycles: idle + 40}
	var fol []byte
	if opi < 256 {
		fol = []byte{uint8(opi), 0x05, 0xc0} // operands: JR +5 / JP C005 / CALL C005 / LD nn=C005.. (plain memory)
		switch uint8(opi) {
		case 0xe0, 0xf0:
			fol[1] = 0x91
		case 0x08, 0xea, 0xfa:
			fol[1], fol[2] = 0x34, 0xd2
		}
	} else {
		fol = []byte{0xcb, uint8(opi - 256)}
	}
	cas.Code = append([]byte{0x76}, fol...)
	cas.Code = append(cas.Code, 0x00, 0x00, 0x3c, 0x00, 0x00, 0x00, 0x00, 0x00, 0x00, 0x00)
	for i := range cas.Handlers {
		cas.Handlers[i] = []byte{0x0c, 0xd9}
	}
	cas.Pokes = []cpuPoke{{0xdfe0, 0x08}, {0xdfe1, 0xc0}, {0xd630, 0x77}, {0xd234, 0x12}, {0xd235, 0x34}}
	if pendingAtHalt {
		cas.IF = 1 << uint(src)
	} else {
		// the HALT occupies cycle 0; the request is raised before cycle 1+idle executes
		cas.Events = []lsEvent{{Cycle: 1 + idle, Bit: src}}
	}
	return cas
}

func TestC05(t *testing.T) {
	c := vf.New(t, "C05", "(a) HALT under IME {0,1} x request {already pending, arriving after k idle cycles, k = 0..K} x each of the 5 sources x the following opcode (every defined base opcode and every CB opcode, with plain-memory operands); "+
		"(b) rapid programs mixing HALT with EI/DI/RETI/IF writes and requests at arbitrary cycles; (c) blargg halt_bug and mooneye halt_* ROM verdicts. "+
		"Non-trivial: the case contains an idle period, a wake-up, a dispatch out of HALT or a halt-bug step; distinct = (IME, pending, source, opcode, idle length) / case hash.")
	defer c.Flush()
	c.RunReplays()
	if c.Env.Shard == 0 {
		for _, r := range c05Roms {
			v := romRun(r.path, r.frames, r.mooneye)
			c.Case("rom-verdict", vf.Hash(r.path), true, func() interface{} { return r.path + ": " + v.Verdict })
			c.Extra("rom_"+r.path, v.Verdict)
			if v.Verdict == "fail" || v.Verdict == "panic" {
				if !c.Fail("rom", "rom-failed:"+r.path, r.path+" reports failure: "+v.Text, map[string]string{"rom": r.path}) {
					t.Errorf("%s: %s", r.path, v.Text)
				}
			} else if v.Verdict != "pass" {
				c.Note("%s gave no verdict (%s) — inconclusive", r.path, v.Verdict)
			}
		}
	}
	c05Rig = newLockstepRig()

	c.Sub("halt-contexts", func(t *testing.T) {
		K := c.Env.Pick(40, 300)
		idles := []int{0, 1, 2, 3, 5, 8, 13, K}
		var n, nt int64
		ends := map[string]int64{}
		for opi := 0; opi < 512; opi++ {
			if opi < 256 && (refcpu.IsUndefined(uint8(opi)) || opi == 0xcb) {
				continue
			}
			if !c.Env.Mine(opi) {
				continue
			}
			for ime := 0; ime < 2; ime++ {
				for src := 0; src < 5; src++ {
					for pi := -1; pi < len(idles); pi++ {
						var cas lsCase
						if pi < 0 {
							cas = c05Case(ime == 1, true, src, opi, 0)
						} else {
							cas = c05Case(ime == 1, false, src, opi, idles[pi])
						}
						st, sig, err := c05Run(&cas)
						n++
						ends[st.End]++
						if st.Idles > 0 || st.Wakes > 0 || st.HaltBugs > 0 || st.Dispatches > 0 {
							nt++
						}
						if n%4001 == 1 {
							c.Sample("halt-context", cas)
						}
						if err != nil {
							if known, first := c.FailFirst("halt", sig, err.Error(), cas); !known && first {
								t.Errorf("%v", err)
							}
						}
					}
				}
			}
		}
		// every idle length for a few following opcodes
		for k := 0; k <= K; k++ {
			if !c.Env.Mine(k) {
				continue
			}
			for _, opi := range []int{0x00, 0x3c, 0x3e, 0xc3, 0x76} {
				for ime := 0; ime < 2; ime++ {
					cas := c05Case(ime == 1, false, k%5, opi, k)
					st, sig, err := c05Run(&cas)
					n++
					ends[st.End]++
					if st.Idles > 0 || st.Wakes > 0 || st.Dispatches > 0 {
						nt++
					}
					if err != nil {
						if known, first := c.FailFirst("halt", sig, err.Error(), cas); !known && first {
							t.Errorf("%v", err)
						}
					}
				}
			}
		}
		c.Bulk("halt-context", n, nt)
		for k, v := range ends {
			c.Class("halt-context-end-"+k, v)
		}
		c.Exhaustive("HALT x IME {0,1} x {request pending at HALT, arriving after 0,1,2,3,5,8,13,K idle cycles} x 5 sources x every defined opcode (base and CB) as the following instruction; every idle length 0..K for 5 following opcodes")
	})

	c.Rapid("programs", 30000, 600000, func(rt *rapid.T) {
		fl := lsFlavour{irq: 8, halt: 6, flow: 2, mem: 2, raw: 1}
		cas := lsCase{R: lsGenRegs(rt), IME: rapid.Bool().Draw(rt, "ime"), IE: rapid.Byte().Draw(rt, "ie") | 0x01, IF: rapid.Byte().Draw(rt, "if") & 0x1f & uint8(rapid.IntRange(0, 1).Draw(rt, "if-any")*0xff),
			MaxCycles: rapid.IntRange(30, 500).Draw(rt, "cycles")}
		cas.Code = lsGenCode(rt, fl, 6, 50)
		var subs []cpuPoke
		cas.Handlers, subs = lsGenHandlers(rt, lsFlavour{irq: 6, halt: 1})
		cas.Pokes = append(lsStackFill(rt, len(cas.Code)), subs...)
		cas.Events = lsGenEvents(rt, cas.MaxCycles, 14)
		st, sig, err := c05Run(&cas)
		nt := st.Idles > 0 || st.Wakes > 0 || st.HaltBugs > 0
		class := "program"
		if st.Idles > 0 {
			class += "-idle"
		}
		if st.Wakes > 0 {
			class += "-wake"
		}
		if st.HaltBugs > 0 {
			class += "-haltbug"
		}
		c.Case(class, vf.Hash(cas), nt, func() interface{} { return cas })
		c.Class("end-"+st.End, 1)
		c.Class("dispatches", int64(st.Dispatches))
		c.Class("idle-cycles", int64(st.Idles))
		if err != nil {
			if !c.Fail("halt", sig, err.Error(), cas) {
				rt.Fatalf("%v", err)
			}
		}
	})
}
