package checks

import (
	"bytes"
	"context"
	"encoding/json"
	"fmt"
	"sync"
	"sync/atomic"
	"testing"
	"time"

	"github.com/go-gl/glfw/v3.1/glfw"
	"github.com/gordonklaus/portaudio"
	"pgregory.net/rapid"

	"verifharness/machine"
	"verifharness/refcpu"
	"verifharness/vf"
)

// C26 — the frame loop steps every component once per machine cycle, CPU
// first, 17 556 cycles per frame, and Run stops on request.
//
//  (a) differential: a generated program (poking DIV, TIMA/TAC, DMA, LCDC, IF,
//      the MBC3 clock, the APU at arbitrary cycles) runs once through the real
//      gameboy.New + runFrame and once on machine.M, which steps the same
//      components 17 556 times per frame in the documented order; the complete
//      observable state is compared after every frame, the audio samples and
//      serial bytes at the end.
//  (b) direct progress: across runFrame the divider advances 70 224, the clock's
//      sub-second count 17 556, a 6-cycle counting loop 2 926 iterations, the
//      LCD returns to the same phase with one VBlank request, a DMA completes,
//      739-740 sample pairs are produced and a timer overflow sets IF.2.
//  (c) Run: stop requests issued synchronously from inside the emulation
//      thread (window poll hook, serial writer) at a drawn frame; Run must
//      return after at most one further frame and release its outputs.

type c26Case struct {
	Sys     sysCase   `json:"sys"`
	Pre     []cpuPoke `json:"pre,omitempty"` // register writes applied to both sides before the first frame
	Counter uint16    `json:"counter"`       // divider value set on both sides
}

type c26Out struct {
	Frames     int
	Stopped    bool // an undefined opcode ended the case early
	Interacts  bool
	Dispatches bool
}

func c26Diff(c c26Case) (out c26Out, sig string, err error) {
	defer vf.Recover(&sig, &err)
	rom, rerr := c.Sys.rom()
	if rerr != nil {
		return out, "", nil
	}
	// reference side: the documented order, with the opcode peek
	var serM bytes.Buffer
	var m *machine.M
	func() {
		defer func() {
			if r := recover(); r != nil {
				m = nil
			}
		}()
		m = machine.New(rom, &serM, c.Sys.Audio)
	}()
	if m == nil {
		return out, "", nil // image rejected at construction: nothing to compare
	}
	var lM, rM []float32
	m.OnSample = func(left bool, v float32) {
		if left {
			lM = append(lM, v)
		} else {
			rM = append(rM, v)
		}
	}
	for _, p := range c.Pre {
		m.Mp.Write(p.A, p.V)
	}
	m.T.VerifSetCounter(c.Counter)
	var snaps [][]sysSection
	ifSeen := false
	nSer, nL, nR := 0, 0, 0
frames:
	for f := 0; f < c.Sys.Frames; f++ {
		for _, in := range c.Sys.Inputs {
			if in.Frame == f {
				sysApplyInputM(m, in)
			}
		}
		for i := 0; i < 17556; i++ {
			if m.CPU.VerifAtBoundary() && !m.CPU.VerifHalted() && !m.CPU.VerifStopped() {
				pc := m.CPU.VerifGet().PC
				if refcpu.IsUndefined(m.Mp.Read(pc)) {
					out.Stopped = true
					break frames
				}
				if pc >= 0x40 && pc <= 0x60 && pc&7 == 0 {
					out.Dispatches = true
				}
			}
			m.Cycle()
			if !ifSeen && m.Mp.Read(0xff0f)&0x1f != 0 {
				ifSeen = true
			}
		}
		snaps = append(snaps, sysSnapshot(sysPartsOfM(m)))
		nSer, nL, nR = serM.Len(), len(lM), len(rM)
	}
	// what a partial last frame (ended by the opcode peek) produced does not count
	serM.Truncate(nSer)
	lM, rM = lM[:nL], rM[:nR]
	out.Frames = len(snaps)
	out.Interacts = ifSeen
	if out.Frames == 0 {
		return out, "", nil
	}
	// real side
	g, gerr := sysNewGB(rom, c.Sys.Video, c.Sys.Audio, nil)
	if gerr != nil {
		return out, "construction-differs", fmt.Errorf("machine.New accepted the image but gameboy.New did not: %v", gerr)
	}
	g.consume()
	for _, p := range c.Pre {
		g.G.VerifMapper().Write(p.A, p.V)
	}
	g.G.VerifTimer().VerifSetCounter(c.Counter)
	ctx := context.Background()
	for f := 0; f < out.Frames; f++ {
		for _, in := range c.Sys.Inputs {
			if in.Frame == f {
				g.applyInput(in)
			}
		}
		g.G.VerifRunFrame(ctx)
		if d := sysDiff(snaps[f], sysSnapshot(sysPartsOfGB(g.G))); d != "" {
			g.finish()
			return out, "frame-state-differs", fmt.Errorf("after frame %d runFrame and the documented stepping order (CPU, PPU, memory, audio, timer; 17556 cycles) disagree: %s [documented order vs runFrame]", f+1, d)
		}
	}
	ser := append([]byte(nil), g.Serial.Bytes()...)
	s := g.finish()
	if g.unclosed {
		return out, "speaker-channel-not-closed", fmt.Errorf("Cleanup of an instance with audio output left its speaker channels open")
	}
	if !bytes.Equal(ser, serM.Bytes()) {
		return out, "serial-differs", fmt.Errorf("serial output differs: documented order wrote %d bytes, runFrame %d", serM.Len(), len(ser))
	}
	if c.Sys.Audio {
		if len(s) != 2*len(lM) || len(lM) != len(rM) {
			return out, "sample-count-differs", fmt.Errorf("documented order produced %d left / %d right samples in %d frames, runFrame %d values", len(lM), len(rM), out.Frames, len(s))
		}
		for i := range lM {
			if s[2*i] != lM[i] || s[2*i+1] != rM[i] {
				return out, "samples-differ", fmt.Errorf("sample pair %d differs: documented order (%v,%v), runFrame (%v,%v)", i, lM[i], rM[i], s[2*i], s[2*i+1])
			}
		}
	} else if len(s) != 0 {
		return out, "samples-without-output", fmt.Errorf("%d samples produced with audio output disabled", len(s))
	}
	return out, "", nil
}

// ---------------------------------------------------------------------------
// (b) direct progress

type c26Progress struct {
	CartType uint8  `json:"cart_type"`
	Video    bool   `json:"video"`
	Audio    bool   `json:"audio"`
	Frames   int    `json:"frames"`
	TAC      uint8  `json:"tac"`
	TIMA     uint8  `json:"tima"`
	DMAPage  uint8  `json:"dma_page"`
	DMAFrame int    `json:"dma_frame"`
	Counter  uint16 `json:"counter"`
	LCDOff   bool   `json:"lcd_off"`
}

// counting loop of exactly 6 machine cycles: INC HL (2), NOP (1), JR -4 (3)
var c26Loop = []byte{0x23, 0x00, 0x18, 0xfc}

func c26RunProgress(c c26Progress) (sig string, err error) {
	defer vf.Recover(&sig, &err)
	spec := c11Spec{CartType: c.CartType, RomSize: 0, RamSize: 2, Len: -1, Program: c26Loop}
	rom := c11Build(spec)
	for i := 0; i < 0xa0; i++ { // DMA source bytes in ROM page 0 / 1
		rom[int(c.DMAPage&0x7f)<<8+i] = byte(0x5a ^ i)
	}
	copy(rom[0x100:], c26Loop)
	g, gerr := sysNewGB(rom, c.Video, c.Audio, nil)
	if gerr != nil {
		return "", nil
	}
	g.consume()
	mp, tm := g.G.VerifMapper(), g.G.VerifTimer()
	mp.Write(0xffff, 0) // no dispatch: the loop must not be disturbed
	mp.Write(0xff0f, 0)
	mp.Write(0xff26, 0x80)
	if c.LCDOff {
		mp.Write(0xff40, 0x00)
	}
	tm.VerifSetCounter(c.Counter)
	mp.Write(0xff06, 0x00)
	mp.Write(0xff05, c.TIMA)
	mp.Write(0xff07, c.TAC)
	ctx := context.Background()
	fail := func(s, f string, a ...interface{}) (string, error) {
		g.finish()
		return s, fmt.Errorf(f, a...)
	}
	period := map[uint8]int{4: 1024, 5: 16, 6: 64, 7: 256}[c.TAC&7]
	carry, owed := false, false
	for f := 0; f < c.Frames; f++ {
		hl0 := g.G.VerifCPU().VerifGet()
		cn0 := tm.VerifCounter()
		rt0 := mp.VerifRTCGet().Ticks
		ly0, st0 := mp.Read(0xff44), mp.Read(0xff41)&3
		tima0 := mp.Read(0xff05)
		mp.Write(0xff0f, 0)
		if f == c.DMAFrame {
			mp.Write(0xff46, c.DMAPage&0x7f)
		}
		g.G.VerifRunFrame(ctx)
		hl1 := g.G.VerifCPU().VerifGet()
		d := (int(hl1.H)<<8 | int(hl1.L)) - (int(hl0.H)<<8 | int(hl0.L))
		if d < 0 {
			d += 0x10000
		}
		if d != 2926 {
			return fail("cpu-cycles-per-frame", "frame %d: the 6-cycle counting loop advanced %d iterations, want 2926 (17556 CPU machine cycles)", f+1, d)
		}
		if got := tm.VerifCounter() - cn0; got != uint16(70224&0xffff) {
			return fail("timer-steps-per-frame", "frame %d: the divider advanced %d (mod 65536), want %d (17556 timer steps of 4)", f+1, got, 70224&0xffff)
		}
		if got := (mp.VerifRTCGet().Ticks - rt0 + 1048576) % 1048576; got != 17556 {
			return fail("memory-steps-per-frame", "frame %d: the clock's sub-second count advanced %d, want 17556", f+1, got)
		}
		ifv := mp.Read(0xff0f)
		if !c.LCDOff {
			if ly1, st1 := mp.Read(0xff44), mp.Read(0xff41)&3; ly1 != ly0 || st1 != st0 {
				return fail("ppu-steps-per-frame", "frame %d: LCD phase moved from LY=%d mode %d to LY=%d mode %d across a frame", f+1, ly0, st0, ly1, st1)
			}
			if ifv&1 == 0 {
				return fail("ppu-steps-per-frame", "frame %d: no VBlank request during the frame", f+1)
			}
		}
		if c.TAC&4 != 0 {
			// increments in the frame = multiples of the period the divider passes; the first
			// overflow happens `off` clocks into the frame (TMA = 0, so a second one needs 256 more)
			incs := (int(cn0)%period + 70224) / period
			need := 0x100 - int(tima0)
			off := period - int(cn0)%period + (need-1)*period
			nearEnd := incs >= need && off > 70224-12 // the request follows the overflow by a cycle
			switch {
			case owed && ifv&4 == 0:
				return fail("timer-interrupt-lost-at-frame-boundary", "frame %d: TIMA overflowed in the last cycles of the previous frame, so its request is due by the reload in the first cycles of this one, but IF.2 is clear after this frame too", f+1)
			case owed:
				owed = false
				carry = false
				continue
			case nearEnd:
				carry = true
				owed = ifv&4 == 0 // not seen yet: the reload cycle, and with it the request, falls into the next frame
				continue
			case incs >= need && ifv&4 == 0:
				return fail("timer-interrupt-not-raised", "frame %d: TIMA %02x with %d increments overflowed but IF.2 is clear", f+1, tima0, incs)
			case incs < need && ifv&4 != 0 && !carry:
				return fail("timer-interrupt-spurious", "frame %d: TIMA %02x with %d increments did not overflow but IF.2 is set", f+1, tima0, incs)
			}
			carry = false
		} else if ifv&4 != 0 {
			return fail("timer-interrupt-spurious", "frame %d: timer stopped but IF.2 is set", f+1)
		}
		if f == c.DMAFrame {
			// look at OAM with the LCD off so that the read has no side effect
			lcdc := mp.Read(0xff40)
			mp.Write(0xff40, lcdc&0x7f)
			for i := 0; i < 0xa0; i++ {
				if got := mp.Read(uint16(0xfe00 + i)); got != byte(0x5a^i) {
					return fail("dma-not-complete", "frame %d: a DMA started before the frame left OAM[%d]=%02x, want %02x", f+1, i, got, byte(0x5a^i))
				}
			}
			if lcdc&0x80 != 0 {
				g.finish()
				return "", nil // switching the LCD off and on moves the LCD phase: end of case
			}
		}
	}
	s := g.finish()
	if g.unclosed {
		return "speaker-channel-not-closed", fmt.Errorf("Cleanup of an instance with audio output left its speaker channels open")
	}
	if c.Audio {
		pairs := len(s) / 2
		lo, hi := 739*c.Frames, 740*c.Frames
		if pairs < lo || pairs > hi {
			return "audio-steps-per-frame", fmt.Errorf("%d frames produced %d sample pairs, want %d..%d (one per 95 clocks)", c.Frames, pairs, lo, hi)
		}
	} else if len(s) != 0 {
		return "samples-without-output", fmt.Errorf("%d samples produced with audio output disabled", len(s))
	}
	return "", nil
}

// ---------------------------------------------------------------------------
// (c) Run and stop requests

type c26Stop struct {
	Video bool   `json:"video"`
	Audio bool   `json:"audio"`
	How   string `json:"how"` // "close" (window asks to close), "cancel-poll" (cancel from the window poll hook), "cancel-serial" (cancel from the serial writer), "expire-serial" (the context ends like a deadline: DeadlineExceeded), "cancel-async"
	At    int    `json:"at"`  // frame number (1-based) in which the request is issued
	// LCDOff > 0: the program switches the LCD off after that many frames and goes on reporting one byte per
	// (slightly more than a) frame from a delay loop. Only with requests issued from the serial writer or
	// asynchronously ("close-serial": the window is marked for closing when byte number At arrives, as a user
	// closing the window at that moment would).
	LCDOff int `json:"lcd_off,omitempty"`
}

// c26BeaconOff: the frame beacon for lcdOff frames, then LCDC = 0 and a beacon paced by a delay loop of 17 570 +
// cycles (never more than one byte per frame).
func c26BeaconOff(lcdOff int) []byte {
	p := []byte{0x0e, uint8(lcdOff)} // LD C,n
	p = append(p,
		0xf0, 0x44, 0xfe, 0x90, 0x20, 0xfa, // wait: LDH A,(44); CP 144; JR NZ,wait
		0x78, 0x04, 0xe0, 0x01, // LD A,B; INC B; LDH (01),A
		0xf0, 0x44, 0xfe, 0x90, 0x28, 0xfa, // wait2: LDH A,(44); CP 144; JR Z,wait2
		0x0d,       // DEC C
		0x20, 0xed, // JR NZ,wait
		0xaf, 0xe0, 0x40, // XOR A; LDH (40),A   (line 145: inside V-blank)
		// off: LD DE,2510; d: DEC DE; LD A,D; OR E; JR NZ,d; LD A,B; INC B; LDH (01),A; JR off
		0x11, 0xce, 0x09, 0x1b, 0x7a, 0xb3, 0x20, 0xfb, 0x78, 0x04, 0xe0, 0x01, 0x18, 0xf2)
	return p
}

// one serial byte per frame, when line 144 begins
var c26FrameBeacon = []byte{
	0xf0, 0x44, 0xfe, 0x90, 0x20, 0xfa, // wait: LDH A,(44); CP 144; JR NZ,wait
	0x78, 0x04, 0xe0, 0x01, // LD A,B; INC B; LDH (01),A
	0xf0, 0x44, 0xfe, 0x90, 0x28, 0xfa, // wait2: LDH A,(44); CP 144; JR Z,wait2
	0x18, 0xee, // JR wait
}

type c26Unwind struct{}

// c26Expiring is a context whose end is a deadline's: Err() reports context.DeadlineExceeded once Done is closed.
type c26Expiring struct {
	done chan struct{}
	once sync.Once
}

func (e *c26Expiring) Deadline() (time.Time, bool)   { return time.Time{}, false }
func (e *c26Expiring) Done() <-chan struct{}         { return e.done }
func (e *c26Expiring) Value(interface{}) interface{} { return nil }
func (e *c26Expiring) Err() error {
	select {
	case <-e.done:
		return context.DeadlineExceeded
	default:
		return nil
	}
}

type c26Writer struct {
	n      int32
	onByte func(n int)
}

func (w *c26Writer) Write(p []byte) (int, error) {
	for range p {
		n := int(atomic.AddInt32(&w.n, 1))
		if w.onByte != nil {
			w.onByte(n)
		}
	}
	return len(p), nil
}

func c26RunStop(c c26Stop) (sig string, err error) {
	defer vf.Recover(&sig, &err)
	prog := c26FrameBeacon
	if c.LCDOff != 0 {
		if c.LCDOff < 1 || c.LCDOff > 200 || (c.How != "close-serial" && c.How != "cancel-serial" && c.How != "cancel-async" && c.How != "expire-serial") {
			return "invalid-case", fmt.Errorf("lcd_off needs 1..200 and a request that does not depend on the window being polled")
		}
		prog = c26BeaconOff(c.LCDOff)
	}
	if c.How == "close-serial" && !c.Video {
		return "invalid-case", fmt.Errorf("no window without video output")
	}
	rom := c11Build(c11Spec{Len: -1, Program: prog})
	ctx, cancel := context.WithCancel(context.Background())
	if c.How == "expire-serial" {
		// a context that ends the way a deadline does (Done closes, Err reports DeadlineExceeded) - without any clock
		ec := &c26Expiring{done: make(chan struct{})}
		ctx, cancel = ec, func() { ec.once.Do(func() { close(ec.done) }) }
	}
	defer cancel()
	const runaway = 4 // frames after the request at which the harness unwinds Run itself
	requested := int32(0)
	reqFrame := int32(0)
	w := &c26Writer{}
	var g *sysGB
	w.onByte = func(n int) {
		if c.How == "close-serial" && n == c.At {
			atomic.StoreInt32(&requested, 1)
			atomic.StoreInt32(&reqFrame, int32(n))
			g.Window.Close = true // same goroutine as the frame loop that asks ShouldClose
		}
		if (c.How == "cancel-serial" || c.How == "expire-serial") && n == c.At {
			atomic.StoreInt32(&requested, 1)
			atomic.StoreInt32(&reqFrame, int32(n))
			cancel()
		}
		if atomic.LoadInt32(&requested) == 1 && n >= int(atomic.LoadInt32(&reqFrame))+runaway {
			panic(c26Unwind{})
		}
	}
	var gerr error
	g, gerr = sysNewGB(rom, c.Video, c.Audio, w)
	if gerr != nil {
		return "construction", gerr
	}
	sysMu.Lock()
	term0, glfwTerm0 := portaudio.TerminatedN, glfw.Terminated
	polls := 0
	if c.Video {
		glfw.OnPoll = func(win *glfw.Window) {
			if win != g.Window {
				return
			}
			polls++
			if polls == c.At {
				switch c.How {
				case "close":
					win.Close = true
					atomic.StoreInt32(&requested, 1)
					atomic.StoreInt32(&reqFrame, int32(polls))
				case "cancel-poll":
					atomic.StoreInt32(&requested, 1)
					atomic.StoreInt32(&reqFrame, int32(polls))
					cancel()
				}
			}
		}
	}
	sysMu.Unlock()
	defer func() {
		sysMu.Lock()
		glfw.OnPoll = nil
		sysMu.Unlock()
	}()
	// the audio thread: keeps calling the PortAudio callback the emulator registered
	stopAudio := int32(0)
	if c.Audio {
		go func() {
			buf := make([]float32, 126)
			for atomic.LoadInt32(&stopAudio) == 0 {
				g.Stream.Callback(buf)
			}
		}()
	}
	asyncSeen := int32(-1)
	if c.How == "cancel-async" {
		go func() {
			for int(atomic.LoadInt32(&w.n)) < c.At {
				// spin until the drawn frame has been reached (no clock involved)
				if atomic.LoadInt32(&stopAudio) != 0 {
					return
				}
			}
			cancel()
			seen := atomic.LoadInt32(&w.n)
			atomic.StoreInt32(&asyncSeen, seen)
			atomic.StoreInt32(&reqFrame, seen)
			atomic.StoreInt32(&requested, 1) // from here on the serial writer unwinds a Run that keeps producing frames
		}()
	}
	unwound := false
	finished := make(chan struct{})
	go func() {
		defer close(finished)
		defer func() {
			if r := recover(); r != nil {
				if _, ok := r.(c26Unwind); ok {
					unwound = true
					return
				}
				panic(r)
			}
		}()
		g.G.Run(ctx)
	}()
	<-finished
	atomic.StoreInt32(&stopAudio, 1)
	frames := int(atomic.LoadInt32(&w.n))
	if c.Video && c.How != "cancel-serial" && c.How != "cancel-async" && c.How != "close-serial" && c.How != "expire-serial" {
		frames = polls
	}
	defer func() {
		// make sure nothing stays blocked whatever the outcome
		func() {
			defer func() { recover() }()
			g.G.Cleanup()
		}()
	}()
	if unwound {
		return "run-does-not-stop", fmt.Errorf("%s requested in frame %d, but Run was still producing frames %d frames later (unwound by the harness)", c.How, c.At, runaway)
	}
	switch c.How {
	case "cancel-async":
		seen := int(atomic.LoadInt32(&asyncSeen))
		if seen >= 0 && frames > seen+2 {
			return "run-stops-late", fmt.Errorf("context cancelled asynchronously when %d frames had been counted; Run returned after %d (more than the frame in progress plus one further frame)", seen, frames)
		}
	default:
		if frames > c.At+1 {
			return "run-stops-late", fmt.Errorf("%s requested in frame %d; Run returned after frame %d (more than one further frame)", c.How, c.At, frames)
		}
		if frames < c.At {
			return "run-stops-early", fmt.Errorf("%s requested in frame %d but only %d frames were counted", c.How, c.At, frames)
		}
	}
	// outputs released
	sysMu.Lock()
	dTerm, dGlfw := portaudio.TerminatedN-term0, glfw.Terminated-glfwTerm0
	sysMu.Unlock()
	if c.Audio {
		if !g.Stream.Closed {
			return "audio-stream-not-closed", fmt.Errorf("Run returned but the audio stream was not closed")
		}
		if dTerm < 1 {
			return "portaudio-not-terminated", fmt.Errorf("Run returned but portaudio.Terminate was not called")
		}
		sp := g.G.VerifSpeakers()
		for name, ch := range map[string]chan float32{"left": sp.Left(), "right": sp.Right()} {
			closed := false
		drain:
			for {
				select {
				case _, ok := <-ch:
					if !ok {
						closed = true
						break drain
					}
				default:
					break drain
				}
			}
			if !closed {
				return "speaker-channel-not-closed", fmt.Errorf("Run returned but the %s speaker channel is still open", name)
			}
		}
	}
	if c.Video && dGlfw < 1 {
		return "display-not-terminated", fmt.Errorf("Run returned but glfw.Terminate was not called")
	}
	return "", nil
}

// ---------------------------------------------------------------------------

func init() {
	vf.RegisterReplay("C26/diff", func(raw json.RawMessage) (string, error) {
		var c c26Case
		if err := json.Unmarshal(raw, &c); err != nil {
			return "", err
		}
		_, sig, err := c26Diff(c)
		return sig, err
	})
	vf.RegisterReplay("C26/progress", func(raw json.RawMessage) (string, error) {
		var c c26Progress
		if err := json.Unmarshal(raw, &c); err != nil {
			return "", err
		}
		return c26RunProgress(c)
	})
	vf.RegisterReplay("C26/stop", func(raw json.RawMessage) (string, error) {
		var c c26Stop
		if err := json.Unmarshal(raw, &c); err != nil {
			return "", err
		}
		return c26RunStop(c)
	})
}

var c26CartTypes = []uint8{0x00, 0x01, 0x03, 0x06, 0x10, 0x13, 0x1b}

func c26GenPre(rt *rapid.T) []cpuPoke {
	return rapid.SliceOfN(rapid.Custom(func(rt *rapid.T) cpuPoke {
		a := rapid.SampledFrom([]int{0xff05, 0xff06, 0xff07, 0xff07, 0xff40, 0xff41, 0xff45, 0xff42, 0xff43, 0xff47, 0xff0f, 0xffff, 0xffff,
			0xff26, 0xff11, 0xff12, 0xff14, 0xff17, 0xff19, 0xff1a, 0xff1c, 0xff1e, 0xff21, 0xff22, 0xff23, 0xff24, 0xff25, 0xff46, 0x0000, 0x2000, 0x4000, 0x6000}).Draw(rt, "pa")
		v := rapid.Byte().Draw(rt, "pv")
		if a == 0xff07 {
			v = v&3 | 4
		}
		if a == 0xff46 {
			v = uint8(rapid.IntRange(0x80, 0xdf).Draw(rt, "dmapage"))
		}
		return cpuPoke{uint16(a), v}
	}), 0, 10).Draw(rt, "pre")
}

func TestC26(t *testing.T) {
	c := vf.New(t, "C26", "(a) differential: rapid programs (register hammering incl. DIV/TIMA/TAC/DMA/LCDC/IF/IE/APU/MBC, EI/HALT, pointer walks) on 7 cartridge types with a drawn register preamble and divider value, video and audio outputs on/off, 1-5 frames, run through gameboy.New+runFrame and on the documented-order reference stepping; complete state compared after every frame, samples and serial at the end. "+
		"(b) direct per-frame progress of CPU, timer, memory (clock, DMA), PPU and audio measured on runFrame alone for every cartridge type x output configuration x TAC x drawn TIMA/divider/DMA. "+
		"(c) Run with stop requests (window close, cancel from the window poll hook, cancel from the serial writer, asynchronous cancel) issued in a drawn frame for every output configuration. "+
		"Non-trivial: (a) at least one whole frame compared and an interrupt request was raised during it; (b), (c) all. Distinct = hash of the case.")
	defer c.Flush()
	c.RunReplays()

	c.Sub("progress", func(t *testing.T) {
		var n int64
		idx := 0
		for _, ct := range c26CartTypes {
			for cfg := 0; cfg < 4; cfg++ {
				for _, tac := range []uint8{0, 4, 5, 6, 7} {
					for v := 0; v < c.Env.Pick(2, 8); v++ {
						idx++
						if !c.Env.Mine(idx) {
							continue
						}
						mx := cpuMix(uint64(c.Env.RandSeed(int64(idx))))
						cas := c26Progress{CartType: ct, Video: cfg&1 != 0, Audio: cfg&2 != 0, Frames: 2 + mx.n(3), TAC: tac, TIMA: mx.u8(), DMAPage: uint8(2 + mx.n(0x7c)), DMAFrame: mx.n(3), Counter: mx.u16(), LCDOff: mx.n(5) == 0}
						if v == 0 {
							cas.TIMA = 0xff
						}
						sig, err := c26RunProgress(cas)
						n++
						c.Sample("progress", cas)
						if err != nil {
							if known, first := c.FailFirst("progress", sig, err.Error(), cas); !known && first {
								t.Errorf("%v", err)
							}
						}
					}
				}
			}
		}
		// a single overflow placed k cycles before the end of the first frame (TAC 4: one increment every 256
		// cycles; divider phase 432+4k makes the 69th increment, with TIMA starting at 187, the overflow)
		for k := 0; k <= 8; k++ {
			for cfg := 0; cfg < 4; cfg++ {
				idx++
				if !c.Env.Mine(idx) {
					continue
				}
				cas := c26Progress{CartType: c26CartTypes[(k+cfg)%len(c26CartTypes)], Video: cfg&1 != 0, Audio: cfg&2 != 0, Frames: 3, TAC: 4, TIMA: 187, DMAPage: 0x20, DMAFrame: 2, Counter: uint16(432 + 4*k + 1024*((k*7+cfg)%60))}
				sig, err := c26RunProgress(cas)
				n++
				c.Sample("progress-overflow-at-frame-end", cas)
				if err != nil {
					if known, first := c.FailFirst("progress", sig, err.Error(), cas); !known && first {
						t.Errorf("%v", err)
					}
				}
			}
		}
		c.Bulk("progress", n, n)
	})

	c.Sub("stop", func(t *testing.T) {
		var n int64
		idx := 0
		for cfg := 0; cfg < 4; cfg++ {
			for _, how := range []string{"close", "cancel-poll", "cancel-serial", "cancel-async", "close-serial", "expire-serial"} {
				if cfg&1 == 0 && (how == "close" || how == "cancel-poll" || how == "close-serial") {
					continue // no window without video output
				}
				for _, at := range []int{1, 2, 3, 5, 8, 13, 21, 34} {
					idx++
					if !c.Env.Mine(idx) {
						continue
					}
					cas := c26Stop{Video: cfg&1 != 0, Audio: cfg&2 != 0, How: how, At: at}
					if how == "close-serial" || (how != "close" && how != "cancel-poll" && at%2 == 1) {
						cas.LCDOff = []int{0, 1, 2, 4, 40}[idx%5] // before, at or after the request; never
					}
					sig, err := c26RunStop(cas)
					n++
					c.Sample("stop-"+how, cas)
					if err != nil {
						if known, first := c.FailFirst("stop", sig, err.Error(), cas); !known && first {
							t.Errorf("%v", err)
						}
					}
				}
			}
		}
		c.Bulk("stop", n, n)
	})

	c.Rapid("stop-drawn", 160, 3000, func(rt *rapid.T) {
		cas := c26Stop{Video: rapid.Bool().Draw(rt, "video"), Audio: rapid.Bool().Draw(rt, "audio"), At: rapid.IntRange(1, 60).Draw(rt, "at")}
		hows := []string{"cancel-serial", "cancel-async", "expire-serial"}
		if cas.Video {
			hows = append(hows, "close", "cancel-poll", "close-serial", "close-serial")
		}
		cas.How = rapid.SampledFrom(hows).Draw(rt, "how")
		if cas.How != "close" && cas.How != "cancel-poll" && rapid.Bool().Draw(rt, "lcd-goes-off") {
			cas.LCDOff = rapid.IntRange(1, 70).Draw(rt, "lcd-off")
			c.Class("stop-with-lcd-switched-off", 1)
		}
		c.Case("stop-"+cas.How, vf.Hash(cas), true, func() interface{} { return cas })
		sig, err := c26RunStop(cas)
		if err != nil {
			if !c.Fail("stop", sig, err.Error(), cas) {
				rt.Fatalf("%v", err)
			}
		}
	})

	c.Rapid("diff", 4800, 80000, func(rt *rapid.T) {
		s := c11Spec{CartType: rapid.SampledFrom(c26CartTypes).Draw(rt, "type"), RomSize: uint8(rapid.IntRange(0, 2).Draw(rt, "rom")), RamSize: rapid.SampledFrom([]uint8{0, 0, 0, 1, 2, 3}).Draw(rt, "ram"), Len: -1}
		s.Program = c11GenProgram(rt)
		s.Far = true
		s.Head = make([]byte, 0x68)
		for v := 0x40; v <= 0x60; v += 8 {
			s.Head[v] = rapid.SampledFrom([]byte{0xd9, 0xc9, 0xd9}).Draw(rt, "vec")
		}
		cas := c26Case{Sys: sysCase{Image: &s, Video: rapid.Bool().Draw(rt, "video"), Audio: rapid.IntRange(0, 2).Draw(rt, "audio") == 0, Frames: rapid.IntRange(1, 5).Draw(rt, "frames")},
			Pre: c26GenPre(rt), Counter: rapid.Uint16().Draw(rt, "counter")}
		if rapid.IntRange(0, 3).Draw(rt, "with-input") == 0 {
			cas.Sys.Inputs = rapid.SliceOfN(rapid.Custom(func(rt *rapid.T) sysInput {
				return sysInput{Frame: rapid.IntRange(0, 4).Draw(rt, "f"), Button: rapid.IntRange(0, 7).Draw(rt, "b"), Press: rapid.Bool().Draw(rt, "p")}
			}), 1, 4).Draw(rt, "inputs")
		}
		out, sig, err := c26Diff(cas)
		class := fmt.Sprintf("diff-frames-%d", out.Frames)
		if out.Stopped {
			class += "-stopped"
		}
		if out.Dispatches {
			c.Class("diff-with-dispatch", 1)
		}
		if cas.Sys.Audio {
			c.Class("diff-audio-attached", 1)
		}
		c.Case(class, vf.Hash(cas), out.Frames > 0 && out.Interacts, func() interface{} { return cas })
		if err != nil {
			if !c.Fail("diff", sig, err.Error(), cas) {
				rt.Fatalf("%v", err)
			}
		}
	})
}
