package checks

import (
	"encoding/json"
	"flag"
	"fmt"
	"sync"
	"testing"

	"pgregory.net/rapid"

	"verifharness/machine"
	"verifharness/vf"
)

// C19 — channel status bits and length counters behave as on a DMG.
//
// Reference model, written from the property statement and the gbdev "Game Boy
// sound hardware" page (sections Frame Sequencer, Length Counter, Trigger
// Event, Frequency Sweep, Power Control, Obscure Behavior):
//   * a 512 Hz frame sequencer on a fixed grid of emulated time, 8 steps, the
//     step index restarts at 0 when sound is powered on; steps 0,2,4,6 clock
//     the length counters, steps 2 and 6 clock channel 1's sweep;
//   * NRx1 loads the length counter (64-t, channel 3: 256-t), also while off;
//   * a length clock decrements an enabled, non-zero counter; reaching zero
//     clears the channel's status bit;
//   * NRx4: enabling length while the next sequencer step does not clock length
//     ("first half") clocks a non-zero counter once, disabling the channel if it
//     reaches zero and the write does not trigger; a trigger sets the status bit,
//     reloads a zero counter with 64 (256), minus one when length is enabled in
//     the first half, runs channel 1's sweep initialisation/overflow check, and
//     leaves the bit clear if the DAC is off;
//   * DAC off (NRx2 & F8 == 0, NR30 bit 7 == 0) and power-off clear the bit;
//     power-off zeroes NR10-NR51 (so length enable and DACs are off afterwards)
//     but preserves the length counters.
//
// Soundness devices (DESIGN.md 2.8, 5/C19):
//   * the phase of the 512 Hz grid relative to construction is measured once on
//     a fresh instance (the cycle, modulo 2048, at which any length expiry is
//     observed) and cross-checked on a second instance;
//   * every case starts with power off -> power on (the constructor's sequencer
//     step is not specified) and writes all four NRx1 (the constructor leaves the
//     length counters at unspecified values and power cycling preserves them);
//   * each channel's (status, counter) is a set of candidates: a trigger with
//     length enabled in the first half while the counter is already at its
//     maximum without having been reloaded is not covered by the documentation
//     (candidates max and max-1); the set is narrowed by what NR52 shows;
//   * channel 1's sweep is modelled exactly (documented algorithm) only while
//     every NR10 value written is increase-mode or 08; after any other NR10
//     write channel 1's bit may additionally be clear after a trigger, a sweep
//     clock or an NR10 write (rise only on trigger with DAC on, fall only for a
//     listed cause), its length counter is still modelled exactly.

const (
	c19Wrap     = 1048576 // machine cycles per emulated second
	c19MaxCands = 8
	c19CycleCap = 4 << 20 // per history, after the initial Pre cycles
)

type c19Op struct {
	K  string `json:"k"`            // "w" write V to A | "run" N cycles | "phase" run to grid offset P in half H | "expire" run to the predicted expiry of channel Ch plus one period
	A  uint16 `json:"a,omitempty"`  // w
	V  uint8  `json:"v,omitempty"`  // w
	N  int    `json:"n,omitempty"`  // run
	P  int    `json:"p,omitempty"`  // phase: machine cycles after a 512 Hz grid point (0-2047)
	H  int    `json:"h,omitempty"`  // phase: 1 = first half of a length period (next sequencer step does not clock length)
	Ch int    `json:"ch,omitempty"` // expire: channel index 0-3
}

type c19Case struct {
	Pre  int      `json:"pre"`  // machine cycles run before the initial power-off/power-on
	Len  [4]uint8 `json:"len"`  // NR11, NR21, NR31, NR41 written right after power-on
	Auto bool     `json:"auto"` // wait for the predicted expiry whenever a trigger has reloaded a zero counter and length is enabled
	Ops  []c19Op  `json:"ops"`
}

type c19Variant int

const (
	c19Doc c19Variant = iota
	c19VWrap
	c19VExtraInv
	c19VWave64
	c19VOddSteps
	c19VTrigDacOff
	c19VNoExtra
	c19NVariants
)

// diagnostic hypotheses: if the whole history matches the reference altered in
// exactly this way, the failure gets this signature
var c19VariantSig = map[c19Variant][2]string{
	c19VWrap:       {"length-period-shift-after-second-wrap", "the sequencer step index is also reset to 0 whenever 1 048 576 machine cycles have passed since construction"},
	c19VExtraInv:   {"extra-length-clock-condition-inverted", "the extra length clock is applied in the second half of a length period instead of the first"},
	c19VWave64:     {"wave-length-reload-64", "a trigger reloads channel 3's zero length counter with 64 instead of 256"},
	c19VOddSteps:   {"length-clock-on-odd-steps", "length counters are clocked on sequencer steps 1,3,5,7"},
	c19VTrigDacOff: {"trigger-enables-with-dac-off", "a trigger sets the status bit although the DAC is off"},
	c19VNoExtra:    {"no-extra-length-clock", "no extra length clock on enabling length / triggering in the first half"},
}

type c19Cand struct {
	en bool
	n  int
}

type c19Chan struct {
	dac, le bool
	max     int
	cands   []c19Cand
}

type c19Feats struct {
	rise, fall, expiry, extraClock, reloadZero, reloadZeroDec, corner      bool
	trigFirstHalf, trigSecondHalf, leFirstHalf, powerCycle, lenWriteOff    bool
	dacOffFall, free, sweepOverflow, sweepWriteback, crossedWrap, wrapBusy bool
	autoWaits, wave256                                                     int
	cycles                                                                 int64
	chans                                                                  [4]bool // channel saw a rise
}

type c19Model struct {
	v     c19Variant
	grid  int64
	on    bool
	seq   int   // next frame sequencer step
	cyc   int64 // machine cycles since construction
	ch    [4]c19Chan
	pend  [4]bool // a trigger reloaded this channel's zero counter and no expiry has been seen since
	multi bool
	want  uint8
	// channel 1 sweep
	freq, shadow, swPeriod, swShift, swTimer int
	swNeg, swOn, free                        bool
	// what the last tick/write did, for the diagnosis
	lastLenClock, lastSweepClock bool
	overflowed                   bool
	f                            *c19Feats
}

func c19NewModel(v c19Variant, grid int64, f *c19Feats) *c19Model {
	m := &c19Model{v: v, grid: grid, f: f}
	for i := range m.ch {
		m.ch[i].max = 64
		m.ch[i].cands = []c19Cand{{false, 0}}
	}
	m.ch[2].max = 256
	return m
}

func (m *c19Model) firstHalf() bool { // the next sequencer step does not clock length
	switch m.v {
	case c19VExtraInv:
		return m.seq%2 == 0
	case c19VNoExtra:
		return false
	}
	return m.seq%2 == 1
}

func (m *c19Model) recompute() {
	m.multi = false
	m.want = 0
	for i := range m.ch {
		c := &m.ch[i]
		// dedupe
		if len(c.cands) > 1 {
			out := c.cands[:0:0]
			for _, cd := range c.cands {
				dup := false
				for _, o := range out {
					if o == cd {
						dup = true
					}
				}
				if !dup {
					out = append(out, cd)
				}
			}
			c.cands = out
		}
		if len(c.cands) > 1 {
			m.multi = true
		}
		if c.cands[0].en {
			m.want |= 1 << uint(i)
		}
	}
}

func (m *c19Model) anyOn(i int) bool {
	for _, cd := range m.ch[i].cands {
		if cd.en {
			return true
		}
	}
	return false
}

func (m *c19Model) allOff(i int) {
	for k := range m.ch[i].cands {
		m.ch[i].cands[k].en = false
	}
}

func (m *c19Model) clockLength(i int, disable bool) {
	c := &m.ch[i]
	for k := range c.cands {
		cd := &c.cands[k]
		if cd.n > 0 {
			cd.n--
			if cd.n == 0 && disable {
				if cd.en {
					m.f.expiry = true
					m.f.fall = true
					if i == 2 && m.pend[2] {
						m.f.wave256++
					}
				}
				cd.en = false
				m.pend[i] = false
			}
		}
	}
}

func (m *c19Model) calc() int {
	d := m.shadow >> uint(m.swShift)
	if m.swNeg {
		return m.shadow - d
	}
	return m.shadow + d
}

func (m *c19Model) sweepOverflow() {
	if m.anyOn(0) {
		m.f.sweepOverflow = true
		m.f.fall = true
	}
	m.allOff(0)
	m.overflowed = true
}

func (m *c19Model) maybeOff(i int) { // candidate: the channel may also have been disabled
	c := &m.ch[i]
	for _, cd := range append([]c19Cand{}, c.cands...) {
		if cd.en {
			c.cands = append(c.cands, c19Cand{false, cd.n})
		}
	}
}

func (m *c19Model) sweepClock() {
	if m.free {
		m.maybeOff(0)
		return
	}
	if !m.swOn {
		return
	}
	m.swTimer--
	if m.swTimer == 0 {
		m.swTimer = m.swPeriod
		if m.swTimer == 0 {
			m.swTimer = 8
			return
		}
		n := m.calc()
		if n > 2047 {
			m.sweepOverflow()
		} else if m.swShift > 0 {
			m.freq, m.shadow = n, n
			m.f.sweepWriteback = true
			if m.calc() > 2047 {
				m.sweepOverflow()
			}
		}
	}
}

// tick advances the model by one machine cycle; true when a sequencer step happened.
func (m *c19Model) tick() bool {
	m.cyc++
	stepped := false
	m.lastLenClock, m.lastSweepClock = false, false
	if (m.cyc-m.grid)%2048 == 0 {
		stepped = true
		step := m.seq
		m.seq = (m.seq + 1) % 8
		lenStep := step%2 == 0
		if m.v == c19VOddSteps {
			lenStep = step%2 == 1
		}
		if lenStep {
			m.lastLenClock = true
			for i := range m.ch {
				if m.ch[i].le {
					m.clockLength(i, true)
				}
			}
		}
		if step == 2 || step == 6 {
			m.lastSweepClock = true
			m.sweepClock()
		}
	}
	if m.cyc%c19Wrap == 0 {
		m.f.crossedWrap = true
		if m.on {
			for i := range m.ch {
				if m.ch[i].le && m.anyOn(i) {
					m.f.wrapBusy = true
				}
			}
		}
		if m.v == c19VWrap {
			m.seq = 0
		}
	}
	if stepped {
		m.recompute()
	}
	return stepped
}

var c19LenReg = map[uint16]int{0xff11: 0, 0xff16: 1, 0xff1b: 2, 0xff20: 3}
var c19EnvReg = map[uint16]int{0xff12: 0, 0xff17: 1, 0xff21: 3}
var c19TrigReg = map[uint16]int{0xff14: 0, 0xff19: 1, 0xff1e: 2, 0xff23: 3}

func (m *c19Model) write(a uint16, v uint8) {
	defer m.recompute()
	m.overflowed = false
	if a == 0xff26 {
		if v&0x80 == 0 {
			if m.on {
				m.f.powerCycle = true
				for i := range m.ch {
					if m.anyOn(i) {
						m.f.fall = true
					}
				}
			}
			m.on = false
			for i := range m.ch {
				m.ch[i].dac, m.ch[i].le = false, false
				m.allOff(i)
			}
			m.freq, m.swPeriod, m.swShift, m.swNeg = 0, 0, 0, false
		} else {
			if !m.on {
				m.seq = 0
			}
			m.on = true
		}
		return
	}
	if i, ok := c19LenReg[a]; ok {
		c := &m.ch[i]
		n := 64 - int(v&0x3f)
		if i == 2 {
			n = 256 - int(v)
		}
		for k := range c.cands {
			c.cands[k].n = n
		}
		m.pend[i] = false
		if !m.on {
			m.f.lenWriteOff = true
		}
		return
	}
	if !m.on {
		return
	}
	if i, ok := c19EnvReg[a]; ok {
		m.ch[i].dac = v&0xf8 != 0
		if !m.ch[i].dac {
			if m.anyOn(i) {
				m.f.dacOffFall, m.f.fall = true, true
			}
			m.allOff(i)
		}
		return
	}
	if i, ok := c19TrigReg[a]; ok {
		m.writeNRx4(i, v)
		return
	}
	switch a {
	case 0xff1a:
		m.ch[2].dac = v&0x80 != 0
		if !m.ch[2].dac {
			if m.anyOn(2) {
				m.f.dacOffFall, m.f.fall = true, true
			}
			m.allOff(2)
		}
	case 0xff10:
		wasFree := m.free
		m.swPeriod, m.swNeg, m.swShift = int(v>>4)&7, v&8 != 0, int(v&7)
		if v&0x08 != 0 && v != 0x08 {
			m.free = true
			m.f.free = true
		}
		if wasFree {
			m.maybeOff(0)
		}
	case 0xff13:
		m.freq = m.freq&0x700 | int(v)
	}
}

func (m *c19Model) writeNRx4(i int, v uint8) {
	c := &m.ch[i]
	if i == 0 {
		m.freq = m.freq&0xff | int(v&7)<<8
	}
	leNew, trig := v&0x40 != 0, v&0x80 != 0
	first := m.firstHalf()
	if !c.le && leNew {
		if m.seq%2 == 1 {
			m.f.leFirstHalf = true
		}
		if first {
			for _, cd := range c.cands {
				if cd.n > 0 {
					m.f.extraClock = true
				}
			}
			m.clockLength(i, !trig)
		}
	}
	if trig {
		if leNew {
			if m.seq%2 == 1 {
				m.f.trigFirstHalf = true
			} else {
				m.f.trigSecondHalf = true
			}
		}
		wasOn := m.anyOn(i)
		var out []c19Cand
		for _, cd := range c.cands {
			cd.en = true
			switch {
			case cd.n == 0:
				cd.n = c.max
				m.f.reloadZero = true
				m.pend[i] = true
				if i == 2 && m.v == c19VWave64 {
					cd.n = 64
					if leNew && first { // diagnostic hypothesis only: with or without the first-half decrement
						out = append(out, c19Cand{true, 63})
					}
				} else if leNew && first {
					cd.n--
					m.f.reloadZeroDec = true
				}
				out = append(out, cd)
			case cd.n == c.max && leNew && first:
				// documented only for a counter reloaded from zero: both outcomes are accepted
				m.f.corner = true
				out = append(out, cd, c19Cand{true, cd.n - 1})
			default:
				out = append(out, cd)
			}
		}
		c.cands = out
		if i == 0 {
			if m.free {
				m.maybeOff(0)
			} else {
				m.shadow = m.freq
				m.swTimer = m.swPeriod
				if m.swTimer == 0 {
					m.swTimer = 8
				}
				m.swOn = m.swPeriod > 0 || m.swShift > 0
				if m.swShift > 0 && m.calc() > 2047 {
					m.allOff(0)
					m.overflowed = true
					m.f.sweepOverflow = true
				}
			}
		}
		if !c.dac && m.v != c19VTrigDacOff {
			m.allOff(i)
		}
		if !wasOn && m.anyOn(i) {
			m.f.rise = true
			m.f.chans[i] = true
		}
	}
	c.le = leNew
}

// observe narrows the candidate sets by the status nibble read from NR52;
// it returns the first channel for which no candidate matches, or -1.
func (m *c19Model) observe(got uint8) int {
	bad := -1
	for i := range m.ch {
		c := &m.ch[i]
		bit := got>>uint(i)&1 != 0
		keep := c.cands[:0:0]
		for _, cd := range c.cands {
			if cd.en == bit {
				keep = append(keep, cd)
			}
		}
		if len(keep) == 0 {
			if bad < 0 {
				bad = i
			}
			continue
		}
		c.cands = keep
	}
	m.recompute()
	return bad
}

// ---------------------------------------------------------------------------

var c19ROM = machine.MakeROM(0, 0, 0)

var c19Calib struct {
	once sync.Once
	grid int64
	err  error
}

// c19Probe returns the cycle (since construction) at which channel ch, started
// with length enabled pre cycles after construction, is seen to expire.
func c19Probe(pre int, ch int) (int64, error) {
	hw := machine.NewHW(c19ROM, nil, false)
	cyc := int64(0)
	for i := 0; i < pre; i++ {
		hw.HW()
		cyc++
	}
	base := []uint16{0xff10, 0xff15, 0xff1a, 0xff1f}[ch]
	hw.Mp.Write(0xff26, 0x00)
	hw.Mp.Write(0xff26, 0x80)
	if ch == 2 {
		hw.Mp.Write(0xff1a, 0x80)
		hw.Mp.Write(0xff1b, 0xff)
	} else {
		hw.Mp.Write(base+2, 0xf0)
		hw.Mp.Write(base+1, 0x3f)
	}
	hw.Mp.Write(base+4, 0xc0)
	bit := uint8(1) << uint(ch)
	if hw.Mp.Read(0xff26)&bit == 0 {
		return 0, fmt.Errorf("calibration: channel %d not on after trigger with DAC on", ch+1)
	}
	for i := 0; i < 300*4096; i++ {
		hw.HW()
		cyc++
		if hw.Mp.Read(0xff26)&bit == 0 {
			return cyc, nil
		}
	}
	return 0, fmt.Errorf("calibration: channel %d, triggered with length enabled, did not expire within 300 length periods", ch+1)
}

func c19Grid() (int64, error) {
	c19Calib.once.Do(func() {
		defer func() {
			if r := recover(); r != nil {
				c19Calib.err = fmt.Errorf("calibration: panic %v", r)
			}
		}()
		c1, err := c19Probe(0, 0)
		if err != nil {
			c19Calib.err = err
			return
		}
		c19Calib.grid = c1 % 2048
		for _, p := range []struct{ pre, ch int }{{777, 1}, {5000, 3}, {2047, 2}} {
			c2, err := c19Probe(p.pre, p.ch)
			if err != nil {
				c19Calib.err = err
				return
			}
			if c2%2048 != c19Calib.grid {
				c19Calib.err = fmt.Errorf("calibration: length expiries seen at cycles %d and %d since construction, which are not on one 512 Hz grid (2048 machine cycles)", c1, c2)
				return
			}
		}
	})
	return c19Calib.grid, c19Calib.err
}

type c19Res struct {
	sig      string
	err      error
	feats    c19Feats
	corner   bool // candidate bound exceeded: outcome not specified, case discarded
	truncate bool
}

func c19Exec(cas c19Case, variant c19Variant) (res c19Res) {
	defer vf.Recover(&res.sig, &res.err)
	grid, err := c19Grid()
	if err != nil {
		res.sig, res.err = "calibration", err
		return
	}
	hw := machine.NewHW(c19ROM, nil, false)
	m := c19NewModel(variant, grid, &res.feats)
	opIdx, inOp := -1, 0
	ctx := "start"
	fail := func(ch int, got uint8) bool {
		c := &m.ch[ch]
		bit := got>>uint(ch)&1 != 0
		what := "clear"
		if bit {
			what = "set"
		}
		cause := ""
		switch {
		case ctx == "trigger" && bit && !c.dac:
			cause = "trigger-with-dac-off"
		case ctx == "trigger" && bit && ch == 0 && m.overflowed:
			cause = "trigger-with-sweep-overflow"
		case ctx == "trigger":
			cause = "trigger"
		case ctx == "run" && m.lastLenClock: // expired too early or not when predicted: the same causes produce both
			what, cause = "wrong", "length-clock"
		case ctx == "run" && m.lastSweepClock:
			cause = "sweep-clock"
		case ctx == "run":
			cause = "between-sequencer-steps"
		default:
			cause = ctx
		}
		res.sig = fmt.Sprintf("ch%d-status-%s-at-%s", ch+1, what, cause)
		desc := ""
		for _, cd := range c.cands {
			desc += fmt.Sprintf("{on=%v length=%d}", cd.en, cd.n)
		}
		opDesc := "initial sequence"
		if opIdx >= 0 && opIdx < len(cas.Ops) {
			b, _ := json.Marshal(cas.Ops[opIdx])
			opDesc = fmt.Sprintf("op %d %s", opIdx, b)
		}
		res.err = fmt.Errorf("%s, %d cycles in (cycle %d since construction, next sequencer step %d, %d cycles after a grid point): NR52 status=%x, channel %d bit is %s but the reference has %s (DAC %v, length enable %v, power %v)",
			opDesc, inOp, m.cyc, m.seq, (m.cyc-m.grid)%2048, got, ch+1, what, desc, c.dac, c.le, m.on)
		return false
	}
	check := func() bool {
		got := hw.Mp.Read(0xff26) & 0x0f
		if !m.multi && got == m.want {
			return true
		}
		if bad := m.observe(got); bad >= 0 {
			return fail(bad, got)
		}
		for i := range m.ch {
			if len(m.ch[i].cands) > c19MaxCands {
				res.corner = true
				return false
			}
		}
		return true
	}
	step := func() bool {
		hw.HW()
		m.tick()
		inOp++
		return check()
	}
	write := func(a uint16, v uint8) bool {
		ctx = "write"
		if _, ok := c19TrigReg[a]; ok {
			ctx = "length-enable-write"
			if v&0x80 != 0 {
				ctx = "trigger"
			}
		} else if _, ok := c19EnvReg[a]; ok || a == 0xff1a {
			ctx = "dac-write"
		} else if _, ok := c19LenReg[a]; ok {
			ctx = "length-write"
		} else if a == 0xff26 {
			ctx = "power-write"
		} else if a == 0xff10 {
			ctx = "nr10-write"
		}
		if !m.on && a != 0xff26 {
			ctx += "-while-off"
		}
		hw.Mp.Write(a, v)
		m.write(a, v)
		return check()
	}
	expire := func(ch, extra int) bool {
		ctx = "run"
		budget := 4096
		if m.ch[ch].le {
			nmax := 0
			for _, cd := range m.ch[ch].cands {
				if cd.en && cd.n > nmax {
					nmax = cd.n
				}
			}
			if nmax > 0 {
				budget = (nmax + 1) * 4096
			}
		}
		for k := 0; k < budget && m.ch[ch].le && m.anyOn(ch); k++ {
			if !step() {
				return false
			}
		}
		for k := 0; k < 4096+extra; k++ {
			if !step() {
				return false
			}
		}
		return true
	}
	defer func() { res.feats.cycles = m.cyc }()

	ctx = "run"
	for i := 0; i < cas.Pre; i++ {
		hw.HW()
		m.tick()
	}
	if !write(0xff26, 0x00) || !write(0xff26, 0x80) {
		return
	}
	for i, a := range []uint16{0xff11, 0xff16, 0xff1b, 0xff20} {
		if !write(a, cas.Len[i]) {
			return
		}
	}
	res.feats.powerCycle, res.feats.fall = false, false
	for opIdx = 0; opIdx < len(cas.Ops); opIdx++ {
		op := cas.Ops[opIdx]
		inOp = 0
		if m.cyc-int64(cas.Pre) > c19CycleCap {
			res.truncate = true
			return
		}
		switch op.K {
		case "w":
			if op.A < 0xff10 || op.A > 0xff26 {
				res.sig, res.err = "bad-case", fmt.Errorf("op %d: address %04x outside FF10-FF26", opIdx, op.A)
				return
			}
			if !write(op.A, op.V) {
				return
			}
		case "run":
			ctx = "run"
			for k := 0; k < op.N; k++ {
				if !step() {
					return
				}
			}
		case "phase":
			ctx = "run"
			for k := 0; k < 4097; k++ {
				if (m.cyc-m.grid)%2048 == int64(op.P&2047) && m.seq%2 == op.H&1 {
					break
				}
				if !step() {
					return
				}
			}
		case "expire":
			if !expire(op.Ch&3, op.N) {
				return
			}
		default:
			res.sig, res.err = "bad-case", fmt.Errorf("op %d: unknown kind %q", opIdx, op.K)
			return
		}
		if cas.Auto {
			for ch := 0; ch < 4; ch++ {
				if m.pend[ch] && m.ch[ch].le && m.anyOn(ch) && m.cyc-int64(cas.Pre) <= c19CycleCap {
					res.feats.autoWaits++
					if !expire(ch, 0) {
						return
					}
				}
			}
		}
	}
	return
}

func c19Run(cas c19Case) (sig string, err error) {
	r := c19Exec(cas, c19Doc)
	if r.err == nil || r.sig == "panic" || r.sig == "bad-case" || r.sig == "calibration" {
		return r.sig, r.err
	}
	for v := c19VWrap; v < c19NVariants; v++ {
		rv := c19Exec(cas, v)
		if rv.err == nil && !rv.corner && !rv.truncate {
			return c19VariantSig[v][0], fmt.Errorf("%v [diagnosis: the whole history matches the reference if %s]", r.err, c19VariantSig[v][1])
		}
	}
	return r.sig, r.err
}

func init() {
	vf.RegisterReplay("C19/length", func(raw json.RawMessage) (string, error) {
		var c c19Case
		if err := json.Unmarshal(raw, &c); err != nil {
			return "", err
		}
		return c19Run(c)
	})
}

// ---------------------------------------------------------------------------
// generators

var c19Base = [4]uint16{0xff10, 0xff15, 0xff1a, 0xff1f}

func c19LenValue(rt *rapid.T, ch int) uint8 {
	switch rapid.IntRange(0, 5).Draw(rt, "lenkind") {
	case 0, 1, 2: // short: 1-4 length clocks left
		return 0xff - uint8(rapid.IntRange(0, 3).Draw(rt, "short"))
	case 3: // maximum
		return 0
	case 4:
		if ch == 2 { // medium for channel 3
			return 0xff - uint8(rapid.IntRange(4, 40).Draw(rt, "med"))
		}
		return 0xff - uint8(rapid.IntRange(4, 20).Draw(rt, "med"))
	}
	return rapid.Byte().Draw(rt, "len")
}

func c19DacWrite(rt *rapid.T, ch int, on bool) c19Op {
	if ch == 2 {
		v := rapid.Byte().Draw(rt, "v30") & 0x7f
		if on {
			v |= 0x80
		}
		return c19Op{K: "w", A: 0xff1a, V: v}
	}
	v := rapid.Byte().Draw(rt, "vx2") & 0x07
	if on {
		v |= rapid.SampledFrom([]uint8{0xf0, 0x08, 0x10, 0x80, 0xf8}).Draw(rt, "dacbits")
	}
	return c19Op{K: "w", A: c19Base[ch] + 2, V: v}
}

func c19PhaseOp(rt *rapid.T) c19Op {
	p := rapid.SampledFrom([]int{0, 1, 2, 1023, 2045, 2046, 2047}).Draw(rt, "edge")
	if rapid.Bool().Draw(rt, "anyphase") {
		p = rapid.IntRange(0, 2047).Draw(rt, "p")
	}
	return c19Op{K: "phase", P: p, H: rapid.IntRange(0, 1).Draw(rt, "half")}
}

// family: 0 = NR10 in {00,08}; 1 = increase-mode sweeps; 2 = any NR10
func c19ChunkGen(family, focus int) *rapid.Generator[[]c19Op] {
	return rapid.Custom(func(rt *rapid.T) []c19Op {
		ch := focus
		if ch < 0 {
			ch = rapid.IntRange(0, 3).Draw(rt, "ch")
		}
		fhi := func() uint8 {
			if family >= 1 && ch == 0 {
				return uint8(rapid.IntRange(3, 7).Draw(rt, "fhi"))
			}
			return uint8(rapid.IntRange(0, 7).Draw(rt, "fhi"))
		}
		switch k := rapid.IntRange(0, 99).Draw(rt, "kind"); {
		case k < 13:
			return []c19Op{{K: "w", A: c19Base[ch] + 1, V: c19LenValue(rt, ch)}}
		case k < 22:
			return []c19Op{c19DacWrite(rt, ch, rapid.IntRange(0, 2).Draw(rt, "dacon") > 0)}
		case k < 46: // trigger
			var ops []c19Op
			if rapid.IntRange(0, 9).Draw(rt, "withdac") < 4 {
				ops = append(ops, c19DacWrite(rt, ch, true))
			}
			if rapid.IntRange(0, 9).Draw(rt, "withphase") < 6 {
				ops = append(ops, c19PhaseOp(rt))
			}
			le := uint8(rapid.IntRange(0, 3).Draw(rt, "le")) // 3 in 4 with length enabled
			v := uint8(0x80) | fhi()
			if le > 0 {
				v |= 0x40
			}
			ops = append(ops, c19Op{K: "w", A: c19Base[ch] + 4, V: v})
			switch rapid.IntRange(0, 9).Draw(rt, "after") {
			case 0, 1, 2, 3:
				ops = append(ops, c19Op{K: "expire", Ch: ch, N: rapid.IntRange(0, 3000).Draw(rt, "extra")})
			case 4, 5:
				ops = append(ops, c19Op{K: "run", N: rapid.IntRange(0, 9000).Draw(rt, "n")})
			}
			return ops
		case k < 56: // length enable toggled without trigger
			var ops []c19Op
			if rapid.IntRange(0, 9).Draw(rt, "withphase") < 6 {
				ops = append(ops, c19PhaseOp(rt))
			}
			v := fhi()
			if rapid.Bool().Draw(rt, "le") {
				v |= 0x40
			}
			return append(ops, c19Op{K: "w", A: c19Base[ch] + 4, V: v})
		case k < 64: // run the counter down to zero, then trigger again: the reload value shows at the next expiry
			ops := []c19Op{
				{K: "w", A: c19Base[ch] + 1, V: 0xff - uint8(rapid.IntRange(0, 2).Draw(rt, "short"))},
				c19DacWrite(rt, ch, true),
				{K: "w", A: c19Base[ch] + 4, V: 0xc0 | fhi()},
				{K: "expire", Ch: ch},
			}
			if rapid.IntRange(0, 3).Draw(rt, "leoff") == 0 {
				ops = append(ops, c19Op{K: "w", A: c19Base[ch] + 4, V: fhi()})
			}
			ops = append(ops, c19PhaseOp(rt))
			v := uint8(0x80) | fhi()
			if rapid.IntRange(0, 4).Draw(rt, "le2") > 0 {
				v |= 0x40
			}
			ops = append(ops, c19Op{K: "w", A: c19Base[ch] + 4, V: v})
			if rapid.IntRange(0, 9).Draw(rt, "wait") < 8 {
				ops = append(ops, c19Op{K: "expire", Ch: ch})
			}
			return ops
		case k < 78:
			n := rapid.IntRange(0, 2100).Draw(rt, "n")
			switch rapid.IntRange(0, 19).Draw(rt, "runkind") {
			case 0:
				n = rapid.IntRange(9000, 300000).Draw(rt, "nlong")
			case 1, 2, 3, 4, 5, 6:
				n = rapid.IntRange(0, 9000).Draw(rt, "nmid")
			}
			return []c19Op{{K: "run", N: n}}
		case k < 82:
			return []c19Op{{K: "expire", Ch: ch, N: rapid.IntRange(0, 5000).Draw(rt, "extra")}}
		case k < 88: // power
			switch rapid.IntRange(0, 4).Draw(rt, "pw") {
			case 0:
				return []c19Op{{K: "w", A: 0xff26, V: 0x00}}
			case 1:
				return []c19Op{{K: "w", A: 0xff26, V: 0x80 | rapid.Byte().Draw(rt, "low")&0x0f}}
			}
			ops := []c19Op{{K: "w", A: 0xff26, V: 0x00}}
			if rapid.Bool().Draw(rt, "lenoff") { // length registers stay writable while off
				ops = append(ops, c19Op{K: "w", A: c19Base[ch] + 1, V: c19LenValue(rt, ch)})
			}
			ops = append(ops, c19Op{K: "run", N: rapid.IntRange(0, 5000).Draw(rt, "n")}, c19Op{K: "w", A: 0xff26, V: 0x80})
			return ops
		case k < 95: // sweep / frequency registers
			switch family {
			case 0:
				return []c19Op{{K: "w", A: 0xff10, V: rapid.SampledFrom([]uint8{0x00, 0x08}).Draw(rt, "nr10")}}
			case 1:
				if rapid.Bool().Draw(rt, "freqlo") {
					return []c19Op{{K: "w", A: 0xff13, V: rapid.Byte().Draw(rt, "nr13")}}
				}
				return []c19Op{{K: "w", A: 0xff10, V: uint8(rapid.IntRange(0, 7).Draw(rt, "period"))<<4 | uint8(rapid.IntRange(0, 7).Draw(rt, "shift"))}}
			}
			if rapid.IntRange(0, 3).Draw(rt, "freqlo") == 0 {
				return []c19Op{{K: "w", A: 0xff13, V: rapid.Byte().Draw(rt, "nr13")}}
			}
			return []c19Op{{K: "w", A: 0xff10, V: rapid.Byte().Draw(rt, "nr10")}}
		default:
			return []c19Op{c19PhaseOp(rt)}
		}
	})
}

func c19GenCase(rt *rapid.T, family int) (c19Case, int) {
	var cas c19Case
	if rapid.IntRange(0, 3).Draw(rt, "late") == 3 { // (shrinks towards the cheap early histories)
		// the history straddles the first emulated second since construction
		cas.Pre = rapid.IntRange(c19Wrap-60000, c19Wrap+3000).Draw(rt, "prelate")
	} else {
		cas.Pre = rapid.IntRange(0, 9000).Draw(rt, "pre")
	}
	focus := rapid.SampledFrom([]int{-1, -1, -1, -1, 0, 1, 2, 2, 3}).Draw(rt, "focus")
	if family >= 1 && rapid.Bool().Draw(rt, "focus1") {
		focus = 0
	}
	for i := range cas.Len {
		cas.Len[i] = c19LenValue(rt, i)
	}
	cas.Auto = rapid.Bool().Draw(rt, "auto")
	for _, ch := range rapid.SliceOfN(c19ChunkGen(family, focus), 1, 36).Draw(rt, "chunks") {
		cas.Ops = append(cas.Ops, ch...)
	}
	return cas, focus
}

var c19FamilyName = []string{"nr10-00-08", "sweep-up", "any-nr10"}

func TestC19(t *testing.T) {
	c := vf.New(t, "C19", "rapid schedules in three families (NR10 in {00,08}; increase-mode sweeps with frequency writes; any NR10 with channel 1's sweep effects left open), per channel or mixed: NRx1 writes biased to short/maximum lengths, DAC on/off, triggers and length-enable toggles placed at a drawn offset (0-2047 cycles) in a drawn half of the 256 Hz period, power off/on/cycles with length writes while off, runs, and waits to the reference's predicted expiry plus one period; "+
		"in half of the cases every trigger that reloads a zero counter is followed by such a wait once length is enabled (up to 256 periods for channel 3); a quarter of the cases start within 60 000 cycles of the first emulated second since construction. NR52 is read after every write and every machine cycle and compared with the reference's candidate set. "+
		"Non-trivial: some status bit rises (trigger with DAC on) and later falls for a modelled cause (length expiry, DAC off, power off, sweep overflow) within the history. Distinct = hash of the case.")
	defer c.Flush()
	c.RunReplays()

	if _, err := c19Grid(); err != nil {
		c.Note("%v", err)
	} else {
		c.Extra("sequencer_grid_phase_cycles", c19Calib.grid)
	}

	// a failing history costs up to 5 M cycles (times the diagnostic re-runs) per shrink attempt: bound the shrink phase of each campaign
	flag.Set("rapid.shrinktime", "15s")
	run := func(family, quickN, thoroughN int) {
		c.Rapid(c19FamilyName[family], quickN, thoroughN, func(rt *rapid.T) {
			cas, focus := c19GenCase(rt, family)
			r := c19Exec(cas, c19Doc)
			f := r.feats
			who := "mixed"
			if focus >= 0 {
				who = fmt.Sprintf("ch%d", focus+1)
			}
			class := c19FamilyName[family] + "/" + who
			if r.corner {
				c.Case("discarded:unspecified-corner(candidate bound)", vf.Hash(cas), false, nil)
				return
			}
			c.Case(class, vf.Hash(cas), f.rise && f.fall, func() interface{} { return cas })
			for _, fl := range []struct {
				on   bool
				name string
			}{
				{f.rise && f.fall, "feat:rise-and-fall"}, {f.expiry, "feat:length-expiry-observed"}, {f.extraClock, "feat:extra-clock-on-length-enable(first half)"},
				{f.trigFirstHalf, "feat:trigger+length in first half of period"}, {f.trigSecondHalf, "feat:trigger+length in second half of period"},
				{f.reloadZero, "feat:trigger-reloads-zero-counter"}, {f.reloadZeroDec, "feat:zero-counter-reloaded-to-max-1"}, {f.corner, "feat:trigger-at-max-length(candidate set)"},
				{f.powerCycle, "feat:power-off-in-history"}, {f.lenWriteOff, "feat:length-write-while-off"}, {f.dacOffFall, "feat:dac-off-clears-bit"},
				{f.free, "feat:ch1-sweep-not-modelled(decrease mode)"}, {f.sweepOverflow, "feat:sweep-overflow-clears-bit"}, {f.sweepWriteback, "feat:sweep-frequency-writeback"},
				{f.crossedWrap, "feat:history-crosses-an-emulated-second-since-construction"}, {f.wrapBusy, "feat:length-counting-across-the-second-boundary"},
				{f.cycles-int64(cas.Pre) > c19Wrap*11/10, "feat:history>1.1-emulated-seconds"}, {f.autoWaits > 0, "feat:auto-wait-after-zero-reload"},
				{f.wave256 > 0, "feat:ch3-expiry-after-reload-from-zero(256)"}, {r.truncate, "feat:truncated-at-cycle-cap"},
				{f.chans[0], "feat:ch1-on"}, {f.chans[1], "feat:ch2-on"}, {f.chans[2], "feat:ch3-on"}, {f.chans[3], "feat:ch4-on"},
			} {
				if fl.on {
					c.Class(fl.name, 1)
				}
			}
			if r.err != nil {
				sig, err := c19Run(cas) // adds the diagnosis
				if !c.Fail("length", sig, err.Error(), cas) {
					rt.Fatalf("%s: %v", sig, err)
				}
			}
		})
	}
	run(0, 1600, 40000)
	run(1, 800, 20000)
	run(2, 800, 20000)
}
