package checks

import (
	"fmt"

	"github.com/scottyw/tetromino/gameboy/cpu"

	"verifharness/machine"
	"verifharness/refcpu"
)

// Shared rig for the single-instruction CPU checks (C01, C02, C03): one CPU
// per process (tetromino's opcode tables belong to the last initialised CPU),
// LCD off, IF = 0, the CPU stepped alone.

type cpuPoke struct {
	A uint16 `json:"a"`
	V uint8  `json:"v"`
}

type cpuCase struct {
	R     refcpu.Regs `json:"regs"`
	Code  []byte      `json:"code"`
	Pokes []cpuPoke   `json:"pokes,omitempty"`
	IME   bool        `json:"ime,omitempty"`
}

type cpuObs struct {
	R       refcpu.Regs
	Cycles  int
	IME     bool
	Halted  bool
	Stopped bool
	IF      uint8
}

const cpuScratchPC = 0xfffd // a NOP is executed here between cases

type cpuRig struct {
	m *machine.M
}

func newCPURig() *cpuRig {
	m := machine.New(machine.MakeROM(0, 0, 0), nil, false)
	// switch the LCD off during HBlank (so that these checks do not depend on
	// what switching off in mode 2 does to the OAM bug, which is C17's subject)
	for i := 0; i < 300 && m.Mp.Read(0xff41)&3 != 0; i++ {
		m.HW()
	}
	m.Mp.Write(0xff40, 0) // LCD off: VRAM/OAM plain, no OAM bug
	m.I.Disable()
	m.Mp.Write(0xff0f, 0)
	m.Mp.Write(0xffff, 0)
	m.Mp.Write(cpuScratchPC, 0)
	return &cpuRig{m: m}
}

func cpuToHook(r refcpu.Regs) cpu.VerifRegs {
	return cpu.VerifRegs{A: r.A, B: r.B, C: r.C, D: r.D, E: r.E, F: r.F, H: r.H, L: r.L, SP: r.SP, PC: r.PC}
}

func cpuFromHook(r cpu.VerifRegs) refcpu.Regs {
	return refcpu.Regs{A: r.A, B: r.B, C: r.C, D: r.D, E: r.E, F: r.F, H: r.H, L: r.L, SP: r.SP, PC: r.PC}
}

// prep brings the CPU to a clean instruction boundary with the given
// registers. After a conditional instruction tetromino's boundary predicate
// depends on the *current* flags, so the previous instruction is first closed
// by executing a NOP with the flags untouched; only then are registers set.
func (rg *cpuRig) prep(regs refcpu.Regs, ime bool) error {
	m := rg.m
	m.CPU.VerifSetHalted(false, false)
	m.CPU.OnInput() // clears "stopped"
	m.I.Disable()
	m.Mp.Write(0xff0f, 0)
	if !m.CPU.VerifAtBoundary() {
		return fmt.Errorf("CPU not at an instruction boundary before the flush NOP")
	}
	fl := m.CPU.VerifGet()
	fl.PC = cpuScratchPC
	m.CPU.VerifSet(fl)
	m.Mp.Write(cpuScratchPC, 0)
	m.CPU.ExecuteMachineCycle()
	m.I.Disable() // an EI executed by the previous case must not leak
	m.CPU.VerifSet(cpuToHook(regs))
	if !m.CPU.VerifAtBoundary() {
		return fmt.Errorf("CPU not at an instruction boundary after the flush NOP")
	}
	if ime {
		m.I.Enable()
	}
	return nil
}

// load writes the case's operand bytes and then its code (code last, so an
// overlapping poke can never alter the instruction).
func (rg *cpuRig) load(c *cpuCase) {
	for _, p := range c.Pokes {
		rg.m.Mp.Write(p.A, p.V)
	}
	for i, b := range c.Code {
		rg.m.Mp.Write(c.R.PC+uint16(i), b)
	}
}

// exec steps the CPU alone until the next boundary (at most max cycles),
// calling between(k) before machine cycle k (1-based) when not nil.
func (rg *cpuRig) exec(max int, between func(k int), after func(k int)) cpuObs {
	m := rg.m
	n := 0
	for {
		if between != nil {
			between(n + 1)
		}
		m.CPU.ExecuteMachineCycle()
		n++
		if after != nil {
			after(n)
		}
		if m.CPU.VerifAtBoundary() || n >= max {
			break
		}
	}
	return cpuObs{R: cpuFromHook(m.CPU.VerifGet()), Cycles: n, IME: m.I.Enabled(), Halted: m.CPU.VerifHalted(),
		Stopped: m.CPU.VerifStopped(), IF: m.Mp.Read(0xff0f)}
}

// runOne loads and executes one instruction and returns the reference's
// prediction (computed on the pre-state) with the observation.
func (rg *cpuRig) runOne(c *cpuCase) (exp refcpu.Result, obs cpuObs, err error) {
	rg.load(c)
	exp = refcpu.Step(c.R, rg.m.Mp.Read, false)
	if exp.Undefined {
		return exp, obs, nil
	}
	if err = rg.prep(c.R, c.IME); err != nil {
		return
	}
	obs = rg.exec(10, nil, nil)
	return
}

func cpuLastWrite(res refcpu.Result, a uint16) uint8 {
	var v uint8
	for _, w := range res.Acc {
		if w.Write && w.Addr == a {
			v = w.Val
		}
	}
	return v
}

// cpuCanon folds the echo area onto work RAM.
func cpuCanon(a uint16) uint16 {
	if a >= 0xe000 && a < 0xfe00 {
		return a - 0x2000
	}
	return a
}

// splitmix64: cheap deterministic filler for "unrelated registers randomised"
type cpuMix uint64

func (s *cpuMix) next() uint64 {
	*s += 0x9e3779b97f4a7c15
	z := uint64(*s)
	z = (z ^ (z >> 30)) * 0xbf58476d1ce4e5b9
	z = (z ^ (z >> 27)) * 0x94d049bb133111eb
	return z ^ (z >> 31)
}
func (s *cpuMix) u8() uint8         { return uint8(s.next() >> 32) }
func (s *cpuMix) n(n int) int       { return int(s.next()>>33) % n }
func (s *cpuMix) u16() uint16       { return uint16(s.next() >> 32) }
func (s *cpuMix) pick(xs []int) int { return xs[s.n(len(xs))] }

func cpuOpName(code []byte) string {
	if len(code) > 1 && code[0] == 0xcb {
		return fmt.Sprintf("cb%02x", code[1])
	}
	return fmt.Sprintf("%02x", code[0])
}
