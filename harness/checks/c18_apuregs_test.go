package checks

import (
	"encoding/json"
	"fmt"
	"testing"

	"pgregory.net/rapid"

	"verifharness/machine"
	"verifharness/vf"
)

// C18 — sound registers read back through their masks and obey APU power.
//
// Reference model (property statement + gbdev "Game Boy sound hardware",
// sections "Register Reading" and "Power Control"):
//   * power on:  NRxx reads (last value written while on since the last
//     power-off, 0 if none) | mask; NR52 reads 70 | 80 | status bits;
//   * power off: every NR10-NR51 reads its mask, NR52 reads exactly 70;
//     writes to NR10-NR51 change nothing that can be read back;
//   * wave RAM, read while NR52 bit 2 is 0, returns what was last written to
//     the cell while channel 3 was off, across any number of power cycles.
//
// Not asserted (soundness): NR52 bits 0-3 while on (C19); wave RAM while
// channel 3 is on; wave cells after a wave-RAM write or an NR34 re-trigger made
// while channel 3 was on (unknown until rewritten); register values and wave
// RAM contents left by the constructor (the power state and the wave RAM are
// read once at the start of the case, registers are unknown until first
// written or powered off); FF15/FF1F/FF27-FF2F (C06). The statement says that
// while off "writes other than to NR52 and the length registers are ignored";
// gbdev says wave RAM is unaffected by power. A wave-RAM write made while off
// (channel 3 off) therefore leaves the cell holding either the old or the new
// value; the first read decides which.

type c18Op struct {
	K string `json:"k"` // "w" = write V to A, "run" = N machine cycles
	A uint16 `json:"a,omitempty"`
	V uint8  `json:"v,omitempty"`
	N int    `json:"n,omitempty"`
}

type c18Case struct {
	Ops []c18Op `json:"ops"`
}

type c18Reg struct {
	addr uint16
	mask uint8
	name string
}

var c18Regs = []c18Reg{
	{0xff10, 0x80, "nr10"}, {0xff11, 0x3f, "nr11"}, {0xff12, 0x00, "nr12"}, {0xff13, 0xff, "nr13"}, {0xff14, 0xbf, "nr14"},
	{0xff16, 0x3f, "nr21"}, {0xff17, 0x00, "nr22"}, {0xff18, 0xff, "nr23"}, {0xff19, 0xbf, "nr24"},
	{0xff1a, 0x7f, "nr30"}, {0xff1b, 0xff, "nr31"}, {0xff1c, 0x9f, "nr32"}, {0xff1d, 0xff, "nr33"}, {0xff1e, 0xbf, "nr34"},
	{0xff20, 0xff, "nr41"}, {0xff21, 0x00, "nr42"}, {0xff22, 0x00, "nr43"}, {0xff23, 0xbf, "nr44"},
	{0xff24, 0x00, "nr50"}, {0xff25, 0x00, "nr51"},
}

func c18RegIndex(a uint16) int {
	for i, r := range c18Regs {
		if r.addr == a {
			return i
		}
	}
	return -1
}

// c18Cell is one wave RAM byte in the model: unknown, or a small set of
// acceptable values (more than one only after a write made with power off).
type c18Cell struct {
	known bool
	c     []uint8
}

type c18Model struct {
	on         bool
	val        [20]int  // -1 = unknown (never written since construction), else readable value before masking
	offWrite   [20]bool // written while off since the last power-off
	wave       [16]c18Cell
	waveSeenPC [16]bool // a power toggle happened since the cell was last written
}

type c18Feats struct {
	writeOn, writeOff, lenWriteOff, powerOff, powerCycleAfterWrites bool
	waveWriteCh3Off, waveWriteCh3On, waveWriteOff, ch3RetriggerOn   bool
	waveReadAfterPowerCycle, run, ch3OnSeen                         bool
	reads                                                           int
}

type c18Res struct {
	sig   string
	err   error
	feats c18Feats
}

var c18ROM = machine.MakeROM(0, 0, 0)

func c18Exec(cas c18Case) (res c18Res) {
	defer vf.Recover(&res.sig, &res.err)
	hw := machine.NewHW(c18ROM, nil, false)
	f := &res.feats
	var m c18Model
	for i := range m.val {
		m.val[i] = -1
	}
	// the constructor's power state and wave RAM contents are not part of the property: read them once
	start := hw.Mp.Read(0xff26)
	m.on = start&0x80 != 0
	if start&0x04 == 0 {
		for i := range m.wave {
			m.wave[i] = c18Cell{known: true, c: []uint8{hw.Mp.Read(0xff30 + uint16(i))}}
		}
	}
	writesSinceOff := false
	check := func(step int, op c18Op) (string, error) {
		where := fmt.Sprintf("after op %d (%s %04x=%02x n=%d)", step, op.K, op.A, op.V, op.N)
		for i, r := range c18Regs {
			got := hw.Mp.Read(r.addr)
			f.reads++
			if !m.on {
				if got != r.mask {
					if got&r.mask != r.mask {
						return r.name + "-mask", fmt.Errorf("%s: power off, %s (%04x) reads %02x want its mask %02x: unreadable bits must read 1", where, r.name, r.addr, got, r.mask)
					}
					if m.offWrite[i] {
						return "write-while-off-honoured", fmt.Errorf("%s: power off, %s (%04x) reads %02x want its mask %02x: a write made while off changed the read-back", where, r.name, r.addr, got, r.mask)
					}
					return "power-off-not-cleared", fmt.Errorf("%s: power off, %s (%04x) reads %02x want its mask %02x", where, r.name, r.addr, got, r.mask)
				}
				continue
			}
			if m.val[i] < 0 {
				continue
			}
			want := uint8(m.val[i]) | r.mask
			if got != want {
				if got&r.mask != r.mask {
					return r.name + "-mask", fmt.Errorf("%s: power on, %s (%04x) reads %02x want %02x (last written %02x | mask %02x): unreadable bits must read 1", where, r.name, r.addr, got, want, m.val[i], r.mask)
				}
				return r.name + "-readback", fmt.Errorf("%s: power on, %s (%04x) reads %02x want %02x (last written %02x | mask %02x)", where, r.name, r.addr, got, want, m.val[i], r.mask)
			}
		}
		nr52 := hw.Mp.Read(0xff26)
		want := uint8(0x70)
		if m.on {
			want |= 0x80
		}
		if nr52&0xf0 != want {
			return "nr52-upper-bits", fmt.Errorf("%s: NR52 reads %02x, want upper nibble %02x (power %v)", where, nr52, want, m.on)
		}
		if !m.on && nr52 != 0x70 {
			return "nr52-status-while-off", fmt.Errorf("%s: power off, NR52 reads %02x want 70", where, nr52)
		}
		if nr52&0x04 != 0 {
			f.ch3OnSeen = true
			return "", nil
		}
		for i := range m.wave {
			cell := &m.wave[i]
			if !cell.known {
				continue
			}
			got := hw.Mp.Read(0xff30 + uint16(i))
			ok := false
			for _, v := range cell.c {
				if v == got {
					ok = true
				}
			}
			if m.waveSeenPC[i] {
				f.waveReadAfterPowerCycle = true
			}
			if !ok {
				if m.waveSeenPC[i] {
					return "wave-ram-lost-on-power-cycle", fmt.Errorf("%s: channel 3 off, wave RAM %04x reads %02x want %02x (written before a power toggle)", where, 0xff30+i, got, cell.c)
				}
				return "wave-ram-changed", fmt.Errorf("%s: channel 3 off, wave RAM %04x reads %02x want %02x", where, 0xff30+i, got, cell.c)
			}
			cell.c = []uint8{got} // an either/or cell is decided by its first read
		}
		return "", nil
	}
	if sig, err := check(-1, c18Op{K: "start"}); err != nil {
		res.sig, res.err = sig, err
		return
	}
	for step, op := range cas.Ops {
		switch op.K {
		case "run":
			f.run = f.run || op.N > 0
			for i := 0; i < op.N; i++ {
				hw.HW()
			}
		case "w":
			ch3on := hw.Mp.Read(0xff26)&0x04 != 0
			hw.Mp.Write(op.A, op.V)
			switch {
			case op.A == 0xff26:
				if op.V&0x80 == 0 {
					if m.on {
						f.powerOff = true
						if writesSinceOff {
							f.powerCycleAfterWrites = true
						}
						writesSinceOff = false
						for i := range m.val {
							m.val[i] = 0
							m.offWrite[i] = false
						}
						for i := range m.waveSeenPC {
							m.waveSeenPC[i] = true
						}
					}
					m.on = false
				} else {
					if !m.on {
						for i := range m.waveSeenPC {
							m.waveSeenPC[i] = true
						}
					}
					m.on = true
				}
			case op.A >= 0xff30 && op.A <= 0xff3f:
				i := int(op.A - 0xff30)
				switch {
				case ch3on:
					f.waveWriteCh3On = true
					for j := range m.wave {
						m.wave[j] = c18Cell{}
					}
				case m.on:
					f.waveWriteCh3Off = true
					m.wave[i] = c18Cell{known: true, c: []uint8{op.V}}
					m.waveSeenPC[i] = false
				default:
					f.waveWriteOff = true
					if m.wave[i].known {
						m.wave[i].c = append(append([]uint8{}, m.wave[i].c...), op.V)
					}
				}
			default:
				i := c18RegIndex(op.A)
				if i < 0 {
					break // FF15, FF1F, FF27-FF2F: must not disturb anything else
				}
				if m.on {
					f.writeOn = true
					writesSinceOff = true
					m.val[i] = int(op.V)
					if op.A == 0xff1e && op.V&0x80 != 0 && ch3on {
						f.ch3RetriggerOn = true
						for j := range m.wave {
							m.wave[j] = c18Cell{}
						}
					}
				} else {
					f.writeOff = true
					m.offWrite[i] = true
					if op.A == 0xff11 || op.A == 0xff16 || op.A == 0xff1b || op.A == 0xff20 {
						f.lenWriteOff = true
					}
				}
			}
		default:
			res.sig, res.err = "bad-case", fmt.Errorf("unknown op kind %q", op.K)
			return
		}
		if sig, err := check(step, op); err != nil {
			res.sig, res.err = sig, err
			return
		}
	}
	return
}

func c18Run(cas c18Case) (string, error) {
	r := c18Exec(cas)
	return r.sig, r.err
}

func init() {
	vf.RegisterReplay("C18/apuregs", func(raw json.RawMessage) (string, error) {
		var c c18Case
		if err := json.Unmarshal(raw, &c); err != nil {
			return "", err
		}
		return c18Run(c)
	})
}

// c18EnumCase is the fixed template of the exhaustive campaign for (address, value):
// power-cycle, write while on, run, power off, write while off, power on.
func c18EnumCase(i int) c18Case {
	a := uint16(0xff10 + i/256)
	v := uint8(i % 256)
	return c18Case{Ops: []c18Op{
		{K: "w", A: 0xff26, V: 0x00}, {K: "w", A: 0xff26, V: 0x80},
		{K: "w", A: a, V: v}, {K: "run", N: 3},
		{K: "w", A: 0xff26, V: 0x00}, {K: "w", A: a, V: v}, {K: "run", N: 2},
		{K: "w", A: 0xff26, V: 0x80},
	}}
}

var c18ValueGen = rapid.OneOf(
	rapid.Byte(),
	rapid.SampledFrom([]uint8{0x00, 0xff, 0x80, 0xc0, 0x40, 0x08, 0xf0, 0xf8, 0x07, 0x3f, 0x7f, 0x87}),
)

// c18ChunkGen draws one to three operations; the multi-operation chunks make
// the rarer shapes (channel 3 running, a power cycle right after writes) common.
var c18ChunkGen = rapid.Custom(func(rt *rapid.T) []c18Op {
	switch k := rapid.IntRange(0, 99).Draw(rt, "kind"); {
	case k < 48:
		r := c18Regs[rapid.IntRange(0, len(c18Regs)-1).Draw(rt, "reg")]
		return []c18Op{{K: "w", A: r.addr, V: c18ValueGen.Draw(rt, "v")}}
	case k < 56: // start channel 3: DAC on, trigger (length enable drawn)
		return []c18Op{{K: "w", A: 0xff1a, V: 0x80 | rapid.Byte().Draw(rt, "v30")}, {K: "w", A: 0xff1e, V: 0x80 | rapid.Byte().Draw(rt, "v34")}}
	case k < 66:
		v := rapid.SampledFrom([]uint8{0x00, 0x80, 0x00, 0x80, 0x7f, 0xff, 0x8f, 0x0f}).Draw(rt, "pv")
		if rapid.IntRange(0, 4).Draw(rt, "rawp") == 0 {
			v = rapid.Byte().Draw(rt, "v")
		}
		return []c18Op{{K: "w", A: 0xff26, V: v}}
	case k < 70: // full power cycle
		return []c18Op{{K: "w", A: 0xff26, V: 0x00}, {K: "run", N: rapid.IntRange(0, 50).Draw(rt, "n")}, {K: "w", A: 0xff26, V: 0x80}}
	case k < 82:
		return []c18Op{{K: "w", A: 0xff30 + uint16(rapid.IntRange(0, 15).Draw(rt, "cell")), V: rapid.Byte().Draw(rt, "v")}}
	case k < 85:
		a := rapid.SampledFrom([]uint16{0xff15, 0xff1f, 0xff27, 0xff28, 0xff29, 0xff2a, 0xff2b, 0xff2c, 0xff2d, 0xff2e, 0xff2f}).Draw(rt, "unused")
		return []c18Op{{K: "w", A: a, V: rapid.Byte().Draw(rt, "v")}}
	default:
		n := rapid.IntRange(0, 3000).Draw(rt, "n")
		if rapid.IntRange(0, 9).Draw(rt, "long") == 0 {
			n = rapid.IntRange(3000, 40000).Draw(rt, "nlong")
		}
		return []c18Op{{K: "run", N: n}}
	}
})

func c18GenCase(rt *rapid.T) c18Case {
	var cas c18Case
	for _, ch := range rapid.SliceOfN(c18ChunkGen, 1, 80).Draw(rt, "chunks") {
		cas.Ops = append(cas.Ops, ch...)
	}
	return cas
}

func TestC18(t *testing.T) {
	c := vf.New(t, "C18", "enumeration: every address FF10-FF3F x every value in a fixed template (power-cycle, write while on, run, power off, same write while off, power on) with all 20 registers, NR52 and (channel 3 off) all 16 wave cells read back after every step; "+
		"rapid: histories of 1-80 chunks of 1-3 operations (register writes of arbitrary values, NR52 writes, wave RAM writes, writes to unused addresses, runs of 0-40000 machine cycles), same read-back after every operation; plus every channel left playing for 70 000 cycles with envelope/sweep/length values that reach their end stops, and channel 3 stopped and restarted from the stopped state at the fastest frequencies. "+
		"Non-trivial: the history contains a register write made with power on (followed by its read-back) or a power-off that follows such writes. Distinct = hash of the operation list (enumeration: distinct by construction).")
	defer c.Flush()
	c.RunReplays()

	c.Sub("single-writes", func(t *testing.T) {
		total := 48 * 256
		var n, nt int64
		failed := 0
		for i := 0; i < total; i++ {
			if !c.Env.Mine(i) {
				continue
			}
			cas := c18EnumCase(i)
			r := c18Exec(cas)
			n++
			if r.feats.writeOn || r.feats.powerCycleAfterWrites {
				nt++
			}
			if i%1531 == 0 {
				c.Sample("enum:single-write-template", cas)
			}
			if r.err != nil && !c.Fail("apuregs", r.sig, r.err.Error(), cas) {
				failed++
				if failed <= 3 {
					t.Errorf("%v", r.err)
				}
				if failed > 50 {
					break
				}
			}
		}
		c.Bulk("enum:single-write-template", n, nt)
		c.Exhaustive("every address FF10-FF3F x all 256 values, written once with power on and once with power off around a power cycle (partitioned across shards)")
	})

	// registers of a channel that is actually playing: envelope, sweep, length and frequency units run for
	// long enough to reach their end stops (70 000 machine cycles: 4 envelope clocks, 8 sweep clocks, 17 length
	// clocks) - none of that may show in what the registers read back
	c.Sub("playing-channels", func(t *testing.T) {
		var n int64
		idx := 0
		failed := 0
		type chn struct{ r0, r1, r2, r3, r4 uint16 }
		for ci, ch := range []chn{{0xff10, 0xff11, 0xff12, 0xff13, 0xff14}, {0, 0xff16, 0xff17, 0xff18, 0xff19}, {0xff1a, 0xff1b, 0xff1c, 0xff1d, 0xff1e}, {0, 0xff20, 0xff21, 0xff22, 0xff23}} {
			for _, v2 := range []uint8{0x11, 0x19, 0xe9, 0xf1, 0x08, 0x87, 0xda, 0x22, 0x60, 0x40} {
				for _, v0 := range []uint8{0x00, 0x11, 0x19, 0x77, 0x80} {
					if ch.r0 == 0 && v0 != 0 || ci == 2 && v0 != 0x80 && v0 != 0x00 {
						continue
					}
					for _, v1 := range []uint8{0x00, 0x3f, 0x80, 0xfe} {
						for _, v4 := range []uint8{0x80, 0xc0, 0x87, 0xc3} {
							idx++
							if !c.Env.Mine(idx) {
								continue
							}
							ops := []c18Op{{K: "w", A: 0xff26, V: 0x00}, {K: "w", A: 0xff26, V: 0x80}, {K: "w", A: 0xff25, V: 0xff}, {K: "w", A: 0xff24, V: 0x77}}
							if ch.r0 != 0 {
								ops = append(ops, c18Op{K: "w", A: ch.r0, V: v0})
							}
							ops = append(ops, c18Op{K: "w", A: ch.r1, V: v1}, c18Op{K: "w", A: ch.r2, V: v2}, c18Op{K: "w", A: ch.r3, V: uint8(idx * 29)}, c18Op{K: "w", A: ch.r4, V: v4},
								c18Op{K: "run", N: 20000}, c18Op{K: "run", N: 50000}, c18Op{K: "w", A: ch.r4, V: v4}, c18Op{K: "run", N: 35000})
							cas := c18Case{Ops: ops}
							r := c18Exec(cas)
							n++
							if idx%173 == 0 {
								c.Sample("enum:playing-channel", cas)
							}
							if r.err != nil && !c.Fail("apuregs", r.sig, r.err.Error(), cas) {
								failed++
								if failed <= 3 {
									t.Errorf("%v", r.err)
								}
								if failed > 50 {
									return
								}
							}
						}
					}
				}
			}
		}
		c.Bulk("enum:playing-channel", n, n)
		c.Exhaustive("each channel started with 10 envelope/level values x sweep settings x 4 length values x 4 trigger values and left playing for 70 000 and, after a re-trigger, 35 000 machine cycles; every register read back after every step")
	})

	// channel 3 stopped (DAC off, power off, or length expiry) after playing for a chosen number of cycles, then
	// started again from the stopped state: whatever its frozen timer and position are, wave RAM - compared
	// whenever channel 3 is off - keeps what was written (only a re-trigger of a PLAYING channel 3 is excused)
	c.Sub("ch3-stop-restart", func(t *testing.T) {
		var n int64
		idx := 0
		failed := 0
		for _, f := range []int{0x7ff, 0x7fe, 0x7fd, 0x7fc, 0x7f8, 0x7e0, 0x700, 0x400, 0x000} {
			for _, play := range []int{1, 2, 3, 4, 5, 6, 7, 8, 9, 17, 33, 100, 1023, 4097} {
				for stop := 0; stop < 3; stop++ {
					for _, second := range []int{0, 3, 64} {
						idx++
						if !c.Env.Mine(idx) {
							continue
						}
						ops := []c18Op{{K: "w", A: 0xff26, V: 0x00}, {K: "w", A: 0xff26, V: 0x80}}
						for i := 0; i < 16; i++ {
							ops = append(ops, c18Op{K: "w", A: 0xff30 + uint16(i), V: uint8(0x11*i + idx)})
						}
						start := func(v4 uint8) {
							ops = append(ops, c18Op{K: "w", A: 0xff1a, V: 0x80}, c18Op{K: "w", A: 0xff1c, V: 0x20}, c18Op{K: "w", A: 0xff1d, V: uint8(f)}, c18Op{K: "w", A: 0xff1e, V: v4 | uint8(f>>8)})
						}
						switch stop {
						case 0: // DAC off
							start(0x80)
							ops = append(ops, c18Op{K: "run", N: play}, c18Op{K: "w", A: 0xff1a, V: 0x00})
						case 1: // power off and on again
							start(0x80)
							ops = append(ops, c18Op{K: "run", N: play}, c18Op{K: "w", A: 0xff26, V: 0x00}, c18Op{K: "run", N: second}, c18Op{K: "w", A: 0xff26, V: 0x80})
						default: // length expiry: 256-255 = 1 length clock away
							ops = append(ops, c18Op{K: "w", A: 0xff1b, V: 0xff})
							start(0xc0)
							ops = append(ops, c18Op{K: "run", N: 4200 + play})
						}
						ops = append(ops, c18Op{K: "run", N: second})
						start(0x80)
						ops = append(ops, c18Op{K: "run", N: 2 + play%5}, c18Op{K: "w", A: 0xff1a, V: 0x00}, c18Op{K: "run", N: 1})
						cas := c18Case{Ops: ops}
						r := c18Exec(cas)
						n++
						if idx%97 == 0 {
							c.Sample("enum:ch3-stop-restart", cas)
						}
						if r.err != nil && !c.Fail("apuregs", r.sig, r.err.Error(), cas) {
							failed++
							if failed <= 3 {
								t.Errorf("%v", r.err)
							}
							if failed > 50 {
								return
							}
						}
					}
				}
			}
		}
		c.Bulk("enum:ch3-stop-restart", n, n)
		c.Exhaustive("channel 3 at 9 frequencies (the five fastest included) played for 14 durations, stopped by DAC-off / power cycle / length expiry, restarted from the stopped state after 0, 3 or 64 cycles and stopped again; wave RAM and all registers read back after every step")
	})

	c.Rapid("histories", 8000, 200000, func(rt *rapid.T) {
		cas := c18GenCase(rt)
		r := c18Exec(cas)
		f := r.feats
		class := "history:no-write-with-power-on"
		switch {
		case f.powerCycleAfterWrites:
			class = "history:power-cycle-after-writes"
		case f.writeOn:
			class = "history:writes-with-power-on-only"
		}
		c.Case(class, vf.Hash(cas), f.writeOn || f.powerCycleAfterWrites, func() interface{} { return cas })
		for _, fl := range []struct {
			on   bool
			name string
		}{
			{f.writeOff, "feat:register-write-while-off"}, {f.lenWriteOff, "feat:length-register-write-while-off"},
			{f.waveWriteCh3Off, "feat:wave-write-ch3-off"}, {f.waveWriteCh3On, "feat:wave-write-ch3-on(cells unknown)"},
			{f.waveWriteOff, "feat:wave-write-power-off(either/or)"}, {f.ch3RetriggerOn, "feat:ch3-retrigger-while-on(cells unknown)"},
			{f.waveReadAfterPowerCycle, "feat:wave-compared-after-power-toggle"}, {f.ch3OnSeen, "feat:ch3-on-at-some-read(wave not compared)"},
			{f.run, "feat:machine-cycles-interleaved"},
		} {
			if fl.on {
				c.Class(fl.name, 1)
			}
		}
		if r.err != nil && !c.Fail("apuregs", r.sig, r.err.Error(), cas) {
			rt.Fatalf("%s: %v", r.sig, r.err)
		}
	})
}
