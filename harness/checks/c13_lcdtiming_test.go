package checks

import (
	"encoding/json"
	"fmt"
	"testing"

	"pgregory.net/rapid"

	"verifharness/machine"
	"verifharness/vf"
)

// C13 — LCD line and mode timing follow the frame schedule.
//
// Reference model (property statement + Pan Docs "LCD Status Register" /
// "Rendering"): a frame is 154 lines of 114 machine cycles; on lines 0-143 the
// first 20 cycles are mode 2, the next 41 mode 3, the rest mode 0; lines
// 144-153 are mode 1. The first line after switch-on is 2 cycles shorter (its
// mode-0 part). Off: LY = 0, mode 0. The model is a counter of PPU steps since
// switch-on and nothing else.

// c13LCD is the shared line/mode reference (also used by C14 and C17).
type c13LCD struct {
	On bool
	K  int // PPU steps (machine cycles) since the switch-on write
}

const (
	c13Line  = 114
	c13Frame = 154 * c13Line // 17556
)

// c13PosAt returns the position inside the frame (0..17555) that the
// observation after the k-th step since switch-on shows. k = 0 is the
// observation immediately after the switch-on write (position 0 as well).
// The first line loses two cycles of its mode-0 part: steps 1..62 show
// positions 0..61, step 63 shows position 64.
func c13PosAt(k int) int {
	if k <= 0 {
		return 0
	}
	p := k - 1
	if p >= 62 {
		p += 2
	}
	return p % c13Frame
}

func c13ModeAtPos(pos int) uint8 {
	ly, t := pos/c13Line, pos%c13Line
	switch {
	case ly >= 144:
		return 1
	case t < 20:
		return 2
	case t < 61:
		return 3
	}
	return 0
}

func (l *c13LCD) SwitchOn()  { l.On, l.K = true, 0 }
func (l *c13LCD) SwitchOff() { l.On, l.K = false, 0 }
func (l *c13LCD) Tick() {
	if l.On {
		l.K++
	}
}

// WriteLCDC applies the on/off effect of an LCDC write; it reports what happened.
func (l *c13LCD) WriteLCDC(v uint8) string {
	switch {
	case v&0x80 != 0 && !l.On:
		l.SwitchOn()
		return "on"
	case v&0x80 == 0 && l.On:
		l.SwitchOff()
		return "off"
	case l.On:
		return "keep-on"
	}
	return "keep-off"
}

func (l *c13LCD) Pos() int { return c13PosAt(l.K) }

// Obs is what FF44 and FF41&3 must read now.
func (l *c13LCD) Obs() (ly, mode uint8) {
	if !l.On {
		return 0, 0
	}
	return c13ObsAt(l.K)
}

func c13ObsAt(k int) (ly, mode uint8) {
	pos := c13PosAt(k)
	return uint8(pos / c13Line), c13ModeAtPos(pos)
}

// c13StepsTo returns the smallest n >= 1 such that, n steps from now, the
// observation shows (line, t); 0 if the LCD is off.
func (l *c13LCD) c13StepsTo(line, t int) int {
	if !l.On {
		return 0
	}
	want := line*c13Line + t
	for n := 1; n <= 2*c13Frame; n++ {
		if c13PosAt(l.K+n) == want {
			return n
		}
	}
	return 0
}

// ---------------------------------------------------------------------------

type c13Op struct {
	K string `json:"k"`           // "run" | "lcdc" | "reg"
	N int    `json:"n,omitempty"` // run: machine cycles
	A uint16 `json:"a,omitempty"` // reg: address (one of c13Regs)
	V uint8  `json:"v,omitempty"` // lcdc / reg: value written
}

// c13Case: the runner first switches the LCD off (FF40 = 11), so the power-on
// phase is not part of the case; then the operations follow.
type c13Case struct {
	Ops []c13Op `json:"ops"`
}

// registers whose writes must not disturb the line/mode sequence. LY (FF44)
// is read-only on a DMG: a store to it must leave the sequence alone too; what
// a read returns before the next machine cycle has elapsed is not asserted (a
// guest cannot read it that soon). DMA writes are never generated.
var c13Regs = []uint16{0xff41, 0xff45, 0xff42, 0xff43, 0xff4a, 0xff4b, 0xff47, 0xff48, 0xff49, 0xff44, 0xff44}

var c13ROM = machine.MakeROM(0, 0, 0)

type c13Shape struct {
	Cycles      int
	FullFrame   bool // >= 1 complete frame run with the LCD continuously on
	MidLineSw   bool // >= 1 on/off switch not at a line start
	OffInMode   [4]int
	OffAtStart  int
	OffFirstLn  int // switched off during the first (short) line after switch-on
	Ons         int
	KeepOn      int
	RegWrites   int
	OnWhileOff  int
	OffWhileOff int
}

func c13Analyse(cas c13Case) c13Shape {
	var s c13Shape
	var l c13LCD
	for _, op := range cas.Ops {
		switch op.K {
		case "run":
			s.Cycles += op.N
			if l.On {
				l.K += op.N
				if l.K >= c13Frame-2 {
					s.FullFrame = true
				}
			}
		case "lcdc":
			k, pos := l.K, l.Pos()
			switch l.WriteLCDC(op.V) {
			case "off":
				_, mode := c13ObsAt(k)
				s.OffInMode[mode]++
				if pos%c13Line == 0 {
					s.OffAtStart++
				} else {
					s.MidLineSw = true
				}
				if k <= 112 {
					s.OffFirstLn++
				}
			case "on":
				s.Ons++
			case "keep-on":
				s.KeepOn++
			case "keep-off":
				s.OffWhileOff++
			}
		case "reg":
			s.RegWrites++
		}
	}
	return s
}

func c13Run(cas c13Case) (sig string, err error) {
	defer vf.Recover(&sig, &err)
	total := 0
	for _, op := range cas.Ops {
		switch op.K {
		case "run":
			if op.N < 0 {
				return "invalid-case", fmt.Errorf("negative run length")
			}
			total += op.N
		case "lcdc":
		case "reg":
			ok := false
			for _, a := range c13Regs {
				ok = ok || a == op.A
			}
			if !ok {
				return "invalid-case", fmt.Errorf("register %04x is outside the domain", op.A)
			}
		default:
			return "invalid-case", fmt.Errorf("unknown op %q", op.K)
		}
	}
	if total > 70000*c13Frame {
		return "invalid-case", fmt.Errorf("case too long")
	}
	m := machine.NewHW(c13ROM, nil, false)
	var ref c13LCD
	m.Mp.Write(0xff40, 0x11)
	cyc := 0
	last := "initial switch-off"
	lyStored := false // a store to LY was made and no machine cycle has elapsed since: LY reads are not judged
	check := func(ctx string) (string, error) {
		ly, mode := ref.Obs()
		gly, gmode := m.Mp.Read(0xff44), m.Mp.Read(0xff41)&3
		if lyStored {
			gly = ly
		}
		if gly == ly && gmode == mode {
			return "", nil
		}
		var s string
		switch {
		case !ref.On && ctx == "lcdc":
			s = "lcd-off-not-immediate"
		case !ref.On:
			s = "lcd-off-ly-or-mode-not-zero"
		case ctx == "lcdc" && ref.K == 0:
			s = "lcd-on-not-line0-mode2"
		case ctx == "reg" || ctx == "lcdc":
			s = "register-write-disturbs-lcd-sequence"
		case ref.K <= 113:
			s = "first-line-after-on-timing"
		case gmode != mode && gly == ly:
			s = "mode-timing"
		case gly != ly && gmode == mode:
			s = "ly-timing"
		default:
			s = "ly-and-mode-timing"
		}
		pos := ref.Pos()
		return s, fmt.Errorf("cycle %d of the case (%s; LCD on=%v, %d cycles since switch-on, reference line %d cycle %d): LY=%d mode=%d, want LY=%d mode=%d",
			cyc, last, ref.On, ref.K, pos/c13Line, pos%c13Line, gly, gmode, ly, mode)
	}
	if s, e := check("lcdc"); e != nil {
		return s, e
	}
	for i, op := range cas.Ops {
		switch op.K {
		case "run":
			for j := 0; j < op.N; j++ {
				m.HW()
				ref.Tick()
				cyc++
				lyStored = false
				if s, e := check("run"); e != nil {
					return s, e
				}
			}
		case "lcdc":
			m.Mp.Write(0xff40, op.V)
			what := ref.WriteLCDC(op.V)
			last = fmt.Sprintf("after op %d: FF40=%02x (%s)", i, op.V, what)
			if s, e := check("lcdc"); e != nil {
				return s, e
			}
		case "reg":
			m.Mp.Write(op.A, op.V)
			if op.A == 0xff44 {
				last = fmt.Sprintf("after op %d: a store of %02x to LY", i, op.V)
				lyStored = true
			}
			if s, e := check("reg"); e != nil {
				return s, fmt.Errorf("after op %d (%04x=%02x): %v", i, op.A, op.V, e)
			}
		}
	}
	return "", nil
}

func init() {
	vf.RegisterReplay("C13/lcdtiming", func(raw json.RawMessage) (string, error) {
		var c c13Case
		if err := json.Unmarshal(raw, &c); err != nil {
			return "", err
		}
		return c13Run(c)
	})
}

// ---------------------------------------------------------------------------
// generation

// c13Raw is one state-independent draw; c13Resolve turns a list of them into
// explicit operations by walking the reference (targets become run lengths).
type c13Raw struct {
	Kind  int   // 0-3 run, 4 off, 5 on, 6 lcdc write keeping the state, 7 reg
	Style int   // run: 0 short, 1 to (Line,T), 2 about a frame, 3 Line*114+T
	Line  int   // 0..153
	T     int   // 0..113
	Small int   // 0..300
	Val   uint8 // value bits
	Reg   int
}

var c13RawGen = rapid.Custom(func(rt *rapid.T) c13Raw {
	r := c13Raw{}
	r.Kind = rapid.IntRange(0, 7).Draw(rt, "kind")
	r.Style = rapid.IntRange(0, 3).Draw(rt, "style")
	// lines biased to the frame's seams
	switch rapid.IntRange(0, 3).Draw(rt, "linesel") {
	case 0:
		r.Line = []int{0, 1, 142, 143, 144, 145, 152, 153}[rapid.IntRange(0, 7).Draw(rt, "seam")]
	default:
		r.Line = rapid.IntRange(0, 153).Draw(rt, "line")
	}
	switch rapid.IntRange(0, 2).Draw(rt, "tsel") {
	case 0:
		r.T = []int{0, 1, 19, 20, 21, 60, 61, 62, 63, 64, 111, 112, 113}[rapid.IntRange(0, 12).Draw(rt, "edge")]
	default:
		r.T = rapid.IntRange(0, 113).Draw(rt, "t")
	}
	r.Small = rapid.IntRange(0, 300).Draw(rt, "small")
	r.Val = rapid.Byte().Draw(rt, "val")
	r.Reg = rapid.IntRange(0, len(c13Regs)-1).Draw(rt, "reg")
	return r
})

func c13Resolve(raws []c13Raw) c13Case {
	var cas c13Case
	var l c13LCD
	total := 0
	run := func(n int) {
		if n <= 0 {
			return
		}
		if total+n > 6*c13Frame {
			n = 6*c13Frame - total
			if n <= 0 {
				return
			}
		}
		cas.Ops = append(cas.Ops, c13Op{K: "run", N: n})
		total += n
		if l.On {
			l.K += n
		}
	}
	lcdc := func(v uint8) {
		cas.Ops = append(cas.Ops, c13Op{K: "lcdc", V: v})
		l.WriteLCDC(v)
	}
	// every schedule starts by switching on (the runner starts with the LCD off)
	lcdc(0x91)
	for _, r := range raws {
		switch {
		case r.Kind <= 3:
			switch r.Style {
			case 0:
				run(r.Small)
			case 1:
				if n := l.c13StepsTo(r.Line, r.T); n > 0 {
					run(n)
				} else {
					run(r.Small)
				}
			case 2:
				run(c13Frame - 150 + r.Small)
			default:
				run(r.Line*c13Line + r.T)
			}
		case r.Kind == 4:
			lcdc(r.Val &^ 0x80)
		case r.Kind == 5:
			lcdc(r.Val | 0x80)
		case r.Kind == 6:
			if l.On {
				lcdc(r.Val | 0x80)
			} else {
				lcdc(r.Val &^ 0x80)
			}
		default:
			cas.Ops = append(cas.Ops, c13Op{K: "reg", A: c13Regs[r.Reg], V: r.Val})
		}
	}
	// 2-6 frames per case, ending with the LCD on
	if !l.On {
		lcdc(0x91)
	}
	if total < 2*c13Frame {
		run(2*c13Frame - total + 120)
	} else {
		run(300)
	}
	return cas
}

// c13SweepCase: switch on, run to (line, t) (first=true: the short first line,
// otherwise the same line one frame later), switch off, stay off, switch on
// again and run one frame and a bit.
func c13SweepCase(first bool, line, t, offFor int) (c13Case, bool) {
	var l c13LCD
	l.SwitchOn()
	n := l.c13StepsTo(line, t)
	if n == 0 {
		return c13Case{}, false
	}
	if first && n > c13Frame {
		return c13Case{}, false // positions 62, 63 of the first line do not exist
	}
	if !first {
		l.K += n
		n += l.c13StepsTo(line, t)
	}
	return c13Case{Ops: []c13Op{{K: "lcdc", V: 0x91}, {K: "run", N: n}, {K: "lcdc", V: 0x11}, {K: "run", N: offFor},
		{K: "lcdc", V: 0x91}, {K: "run", N: c13Frame + 250}}}, true
}

func TestC13(t *testing.T) {
	c := vf.New(t, "C13", "sweep: LCD switched off at every cycle of every line (first short line after switch-on and steady-state lines; quick: 8 seam lines, thorough: all 154), "+
		"kept off, switched on again and run for a frame; rapid: schedules of {run n, LCD off, LCD on, LCDC write keeping the state, STAT/LYC/scroll/palette/window writes} of 2-6 frames with "+
		"run lengths targeting every cycle of a line and the 143/144/153/0 seams. FF44 and FF41&3 are compared with the reference counter after every machine cycle and after every write. "+
		"Non-trivial: the case runs >= 1 complete frame with the LCD on and contains >= 1 on/off switch that is not at a line start. Distinct = hash of the operation list (sweep cases are distinct by construction).")
	defer c.Flush()
	c.RunReplays()

	// a long uninterrupted run: counters that wrap only after hundreds (8 bits) or tens of thousands (16 bits) of
	// frames must not disturb the schedule; LY and the mode are compared after every machine cycle throughout
	c.Sub("long-run", func(t *testing.T) {
		runs := []int{300}
		if c.Env.Thorough() {
			runs = []int{300, 600, 66000}
		}
		for i, frames := range runs {
			if !c.Env.Mine(i) {
				continue
			}
			cas := c13Case{Ops: []c13Op{{K: "lcdc", V: 0x91}, {K: "run", N: frames*c13Frame + 500}}}
			if i == 1 {
				cas.Ops = []c13Op{{K: "lcdc", V: 0x91}, {K: "run", N: 200}, {K: "lcdc", V: 0x11}, {K: "run", N: 77}, {K: "lcdc", V: 0x91}, {K: "run", N: frames*c13Frame + 500}}
			}
			sig, err := c13Run(cas)
			c.Sample("long-run", cas)
			c.Bulk("long-run", 1, 1)
			if err != nil {
				if known, first := c.FailFirst("lcdtiming", sig, err.Error(), cas); !known && first {
					t.Errorf("%v", err)
				}
			}
		}
		c.Exhaustive("the LCD left on without interruption for 300 frames (thorough: also 600 after an off/on, and 66 000), every machine cycle compared")
	})

	c.Sub("off-sweep", func(t *testing.T) {
		lines := []int{0, 1, 77, 142, 143, 144, 152, 153}
		if c.Env.Thorough() {
			lines = lines[:0]
			for i := 0; i < 154; i++ {
				lines = append(lines, i)
			}
		}
		var n, nt int64
		bad := 0
		idx := 0
		for _, first := range []bool{true, false} {
			for _, line := range lines {
				if first && line != 0 {
					continue
				}
				for tt := 0; tt < c13Line; tt++ {
					idx++
					if !c.Env.Mine(idx) {
						continue
					}
					cas, ok := c13SweepCase(first, line, tt, 1+(idx*37)%400)
					if !ok {
						continue
					}
					sh := c13Analyse(cas)
					n++
					if sh.FullFrame && sh.MidLineSw {
						nt++
					}
					for md := 0; md < 4; md++ {
						c.Class(fmt.Sprintf("sweep-off-in-mode%d", md), int64(sh.OffInMode[md]))
					}
					if idx%97 == 0 {
						c.Sample("sweep", cas)
					}
					sig, err := c13Run(cas)
					if err != nil && !c.Fail("lcdtiming", sig, err.Error(), cas) {
						bad++
						if bad == 1 {
							t.Errorf("first=%v line=%d t=%d: %v", first, line, tt, err)
						}
						if bad > 20 {
							return
						}
					}
				}
			}
		}
		c.Bulk("sweep", n, nt)
		c.Exhaustive(fmt.Sprintf("LCD switched off at each of the 114 cycles (112 on the first line after switch-on) of %d line(s), then on again (partitioned across shards)", len(lines)+1))
	})

	c.Rapid("schedules", 8000, 500000, func(rt *rapid.T) {
		raws := rapid.SliceOfN(c13RawGen, 1, 14).Draw(rt, "ops")
		cas := c13Resolve(raws)
		sh := c13Analyse(cas)
		c.Case("schedule", vf.Hash(cas), sh.FullFrame && sh.MidLineSw, func() interface{} { return cas })
		for md := 0; md < 4; md++ {
			if sh.OffInMode[md] > 0 {
				c.Class(fmt.Sprintf("schedule-with-off-in-mode%d", md), 1)
			}
		}
		if sh.OffAtStart > 0 {
			c.Class("schedule-with-off-at-line-start", 1)
		}
		if sh.OffFirstLn > 0 {
			c.Class("schedule-with-off-in-first-line", 1)
		}
		if sh.KeepOn > 0 {
			c.Class("schedule-with-lcdc-write-keeping-on", 1)
		}
		if sh.RegWrites > 0 {
			c.Class("schedule-with-register-writes", 1)
		}
		if sh.Ons > 1 {
			c.Class("schedule-with-restart", 1)
		}
		if sh.FullFrame {
			c.Class("schedule-with-full-frame", 1)
		}
		sig, err := c13Run(cas)
		if err != nil && !c.Fail("lcdtiming", sig, err.Error(), cas) {
			rt.Fatalf("%v", err)
		}
	})
}
