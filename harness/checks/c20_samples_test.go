package checks

import (
	"encoding/json"
	"fmt"
	"math"
	"sort"
	"testing"
	"time"

	"pgregory.net/rapid"

	"verifharness/machine"
	"verifharness/vf"
)

// C20 — the audio sample stream is paced, routed and bounded.
//
// Oracle (from the statement; NR51: bits 4-7 route channels 1-4 to the left
// output SO2, bits 0-3 to the right output SO1):
//   pairing   after every machine cycle as many left as right samples have been emitted;
//   pacing    while sound is on, sample times t_k (in clocks) satisfy t_k = phi + 95k for one
//             constant phi, checked by interval intersection at machine-cycle resolution; at
//             most one longer gap (95 < gap < 190) per 4 194 304 clocks is accepted (the code
//             restarts its sampler grid every emulated second, DESIGN.md 8); never two samples
//             in one cycle, never 190 clocks without one;
//   count     every full emulated second (1 048 576 cycles) of uninterrupted power carries
//             44 149-44 151 pairs (44 149 is the statement's figure, 44 150 what one 149-clock
//             seam gives, 44 150/44 151 what seamless 95-clock pacing gives);
//   silence   no sample in a cycle that began with sound off; none at all with no outputs attached;
//   range     every sample is finite and in [0,1);
//   routing   a side's sample is 0 if, when the cycle began, no channel whose NR52 status bit
//             was set was routed to that side (NR51 as last written while on, 0 after power-off);
//   independence  two runs that differ only in the values written to the registers (and wave
//             RAM) of one channel that is never routed to side S produce identical S streams.
//
// Not asserted: the sample values themselves (mixing, volume), the phase of the
// sample grid after power-on (the fit restarts at every power-on).

type c20Op struct {
	D  int    `json:"d"`            // machine cycles since the previous operation
	A  uint16 `json:"a"`            // FF10-FF3F
	V  uint8  `json:"v"`            // value written
	P  bool   `json:"p,omitempty"`  // the paired run writes V2 instead (only for registers of channel X)
	V2 uint8  `json:"v2,omitempty"` //
}

type c20Case struct {
	Cycles   int     `json:"cycles"`   // machine cycles to run
	Attached bool    `json:"attached"` // left/right outputs attached
	X        int     `json:"x"`        // channel (0-3) never routed to side S whose registers differ in the paired run; -1 = no paired run
	S        int     `json:"s"`        // 0 = left, 1 = right
	Ops      []c20Op `json:"ops"`
}

const (
	c20Second  = 1048576
	c20MaxCyc  = 5 << 20
	c20HangSec = 180
)

type c20Feats struct {
	nonzeroL, nonzeroR, poweredOffSpan, sampleAfterPowerOn bool
	seams, windows, zeroChecks, pairs                      int
}

type c20Out struct {
	sig    string
	err    error
	stream []float32 // side S
	feats  c20Feats
}

var c20ROM = machine.MakeROM(0, 0, 0)

func c20ChannelOf(a uint16) int {
	switch {
	case a >= 0xff10 && a <= 0xff14:
		return 0
	case a >= 0xff16 && a <= 0xff19:
		return 1
	case a >= 0xff1a && a <= 0xff1e, a >= 0xff30 && a <= 0xff3f:
		return 2
	case a >= 0xff20 && a <= 0xff23:
		return 3
	}
	return -1
}

// c20Once executes the schedule once on a fresh machine.
func c20Once(cas c20Case, paired bool) (out c20Out) {
	defer vf.Recover(&out.sig, &out.err)
	hw := machine.NewHW(c20ROM, nil, cas.Attached)
	f := &out.feats
	fail := func(sig, format string, a ...interface{}) {
		if out.err == nil {
			out.sig, out.err = sig, fmt.Errorf(format, a...)
		}
	}
	// model of what the statement needs: power and NR51 as written
	on := hw.Mp.Read(0xff26)&0x80 != 0
	var nr51 uint8
	nr51Known := false
	var cyc int64 // machine cycles since construction
	var st uint8  // NR52 status nibble when the current cycle began
	var cycOn bool
	var gotL, gotR int
	// pacing fit
	var lo, hi int64 // bounds on phi for the current segment
	var j int64      // samples in the current segment
	inSeg := false
	lastSeam := int64(-1)
	var onSince int64 = 0 // cycle count at power-on (start of the current powered span)
	var lastSample int64 = -1
	ring := make([]int64, 0, 64)
	// per-second windows
	var winStart int64
	winPairs := 0

	// A pacing failure is not reported at once: up to 1600 more cycles are run so
	// that the verdict can say whether the samples simply arrive at another rate.
	var pendSig, pendMsg string
	var pendUntil int64 = -1
	paceFail := func(sig, format string, a ...interface{}) {
		if pendUntil < 0 {
			pendSig, pendMsg, pendUntil = sig, fmt.Sprintf(format, a...), cyc+1600
		}
	}
	finalize := func() {
		if pendUntil < 0 {
			return
		}
		pendUntil = -1
		// mean gap of the last samples without the two largest and two smallest gaps (a single seam must not count)
		if len(ring) >= 12 {
			gaps := make([]int64, 0, len(ring))
			for i := 1; i < len(ring); i++ {
				gaps = append(gaps, ring[i]-ring[i-1])
			}
			sort.Slice(gaps, func(x, y int) bool { return gaps[x] < gaps[y] })
			gaps = gaps[2 : len(gaps)-2]
			sum := int64(0)
			for _, g := range gaps {
				sum += g
			}
			if p := 4 * float64(sum) / float64(len(gaps)); math.Abs(p-95) > 0.5 {
				fail(fmt.Sprintf("sample-period-%d-not-95", int(math.Round(p))), "%s; the last %d samples arrive one per %.2f clocks, want 95", pendMsg, len(ring), p)
				return
			}
		}
		fail(pendSig, "%s", pendMsg)
	}
	seam := func(why string) {
		if lastSeam >= 0 && cyc-lastSeam < c20Second-1 {
			paceFail("second-irregular-gap-within-a-second", "cycle %d: %s; the previous irregular gap was at cycle %d, only %d cycles earlier", cyc, why, lastSeam, cyc-lastSeam)
			return
		}
		lastSeam = cyc
		f.seams++
	}
	hw.OnSample = func(left bool, v float32) {
		side := "right"
		if left {
			gotL++
			side = "left"
		} else {
			gotR++
		}
		v64 := float64(v)
		if math.IsNaN(v64) || math.IsInf(v64, 0) {
			fail("sample-not-finite", "cycle %d: %s sample %v", cyc, side, v)
			return
		}
		if v < 0 || v >= 1 {
			fail("sample-out-of-range", "cycle %d: %s sample %v outside [0,1)", cyc, side, v)
			return
		}
		if v != 0 {
			if left {
				f.nonzeroL = true
			} else {
				f.nonzeroR = true
			}
		}
		if nr51Known {
			routed := nr51 & 0x0f & st
			if left {
				routed = nr51 >> 4 & st
			}
			if routed == 0 {
				f.zeroChecks++
				if v != 0 {
					fail("unrouted-side-not-silent", "cycle %d: %s sample %v although no enabled channel is routed there (NR51=%02x, NR52 status=%x)", cyc, side, v, nr51, st)
				}
			}
		}
		if (left && cas.S == 0) || (!left && cas.S == 1) {
			out.stream = append(out.stream, v)
		}
	}
	write := func(a uint16, v uint8) {
		hw.Mp.Write(a, v)
		switch {
		case a == 0xff26 && v&0x80 == 0:
			finalize()
			if on {
				f.poweredOffSpan = true
				// end of a powered span: a sample must not be overdue
				if inSeg && 4*cyc-(hi+95*(j-1)) >= 190 {
					fail("sample-gap-too-long", "cycle %d (power-off): no sample for at least %d clocks", cyc, 4*cyc-(hi+95*(j-1)))
				}
			}
			on, nr51, nr51Known, inSeg = false, 0, true, false
		case a == 0xff26:
			if !on {
				on, inSeg, onSince, lastSample = true, false, cyc, -1
				winStart, winPairs = cyc, 0
				ring = ring[:0]
			}
		case a == 0xff25 && on:
			nr51, nr51Known = v, true
		}
	}
	if cas.Cycles > c20MaxCyc {
		fail("bad-case", "cycles %d above the bound %d", cas.Cycles, c20MaxCyc)
		return
	}
	// fixed prefix: a clean power cycle (the constructor's register values are not part of the property)
	write(0xff26, 0x00)
	write(0xff26, 0x80)
	f.poweredOffSpan = false
	oi := 0
	next := int64(0)
	if len(cas.Ops) > 0 {
		next = int64(cas.Ops[0].D)
	}
	for cyc < int64(cas.Cycles) && out.err == nil {
		for oi < len(cas.Ops) && next <= cyc {
			op := cas.Ops[oi]
			if op.A < 0xff10 || op.A > 0xff3f {
				fail("bad-case", "op %d: address %04x", oi, op.A)
				return
			}
			v := op.V
			if paired && op.P {
				v = op.V2
			}
			write(op.A, v)
			oi++
			if oi < len(cas.Ops) {
				next = cyc + int64(cas.Ops[oi].D)
			}
		}
		st = hw.Mp.Read(0xff26) & 0x0f
		cycOn = on
		l0 := gotL
		cyc++ // number of the cycle now executed
		hw.HW()
		if gotL != gotR {
			fail("left-right-unpaired", "after cycle %d: %d left and %d right samples", cyc, gotL, gotR)
			break
		}
		n := gotL - l0
		if !cas.Attached {
			continue // nothing can be observed; the run must simply complete
		}
		if n > 0 && !cycOn {
			fail("sample-while-off", "cycle %d: %d sample pair(s) emitted while sound is off", cyc, n)
			break
		}
		if !cycOn {
			continue
		}
		if n > 1 {
			fail("two-samples-in-a-cycle", "cycle %d: %d sample pairs in one machine cycle", cyc, n)
			break
		}
		if n == 1 {
			f.pairs++
			winPairs++
			if len(ring) == cap(ring) {
				copy(ring, ring[1:])
				ring = ring[:len(ring)-1]
			}
			ring = append(ring, cyc)
			a, b := 4*(cyc-1)+1, 4*cyc
			if pendUntil >= 0 {
				// only collecting sample times for the verdict
			} else if !inSeg {
				// first sample of a powered span: due within 95 clocks of power-on
				if lastSample < 0 {
					f.sampleAfterPowerOn = true
					if a-4*onSince > 95 {
						seam(fmt.Sprintf("first sample %d-%d clocks after power-on", a-4*onSince, b-4*onSince))
					}
				}
				inSeg, lo, hi, j = true, a, b, 1
			} else {
				nlo, nhi := a-95*j, b-95*j
				if nlo < lo {
					nlo = lo
				}
				if nhi > hi {
					nhi = hi
				}
				if nlo > nhi {
					// not on the grid of this segment: an irregular gap
					prevLo, prevHi := lo+95*(j-1), hi+95*(j-1) // bounds on the previous sample's time
					gmax, gmin := b-prevLo, a-prevHi
					switch {
					case gmax < 95:
						paceFail("sample-gap-short", "cycle %d: sample only %d-%d clocks after the previous one", cyc, gmin, gmax)
					case gmin >= 190:
						paceFail("sample-gap-too-long", "cycle %d: sample %d-%d clocks after the previous one", cyc, gmin, gmax)
					default:
						seam(fmt.Sprintf("gap of %d-%d clocks between samples (want 95)", gmin, gmax))
					}
					lo, hi, j = a, b, 1
				} else {
					lo, hi = nlo, nhi
					j++
				}
			}
			lastSample = cyc
		} else {
			ref := lastSample
			if ref < 0 {
				ref = onSince
			}
			if cyc-ref > 48 && pendUntil < 0 { // 192 clocks
				paceFail("sample-gap-too-long", "cycle %d: sound on, no sample for %d clocks", cyc, 4*(cyc-ref))
			}
		}
		if pendUntil >= 0 {
			if cyc >= pendUntil {
				finalize()
			}
			continue
		}
		if cyc-winStart == c20Second {
			f.windows++
			if winPairs < 44149 || winPairs > 44151 {
				p := 4 * float64(c20Second) / float64(winPairs+1)
				if winPairs > 0 {
					p = 4 * float64(c20Second) / float64(winPairs)
				}
				fail("pairs-per-second", "emulated second ending at cycle %d carried %d sample pairs, want 44149-44151 (one per %.2f clocks)", cyc, winPairs, p)
				break
			}
			winStart, winPairs = cyc, 0
		}
	}
	finalize()
	if out.err == nil && cas.Attached && on && inSeg && 4*cyc-(hi+95*(j-1)) >= 190 {
		fail("sample-gap-too-long", "end of run (cycle %d): no sample for at least %d clocks", cyc, 4*cyc-(hi+95*(j-1)))
	}
	if out.err == nil && !cas.Attached && (gotL != 0 || gotR != 0) {
		fail("sample-with-no-outputs", "%d/%d samples observed with no outputs attached", gotL, gotR)
	}
	return
}

// c20Guarded runs c20Once; with no outputs attached a defective sampler would
// block for ever on a nil channel, which is turned into a failure instead of a
// hung shard (the wall clock is used for nothing else).
func c20Guarded(cas c20Case, paired bool) c20Out {
	if cas.Attached {
		return c20Once(cas, paired)
	}
	done := make(chan c20Out, 1)
	go func() { done <- c20Once(cas, paired) }()
	select {
	case o := <-done:
		return o
	case <-time.After(c20HangSec * time.Second):
		return c20Out{sig: "blocked-with-no-outputs-attached", err: fmt.Errorf("a run of %d cycles with no outputs attached did not finish within %d s of wall time (blocked sending a sample?)", cas.Cycles, c20HangSec)}
	}
}

func c20Exec(cas c20Case) (o c20Out) {
	o = c20Guarded(cas, false)
	if o.err != nil || !cas.Attached || cas.X < 0 {
		return o
	}
	// structural precondition of the paired run, enforced here so that hand-written replays cannot violate it
	for i, op := range cas.Ops {
		if op.P && c20ChannelOf(op.A) != cas.X {
			o.sig, o.err = "bad-case", fmt.Errorf("op %d: perturbed write to %04x, which is not a register of channel %d", i, op.A, cas.X+1)
			return
		}
		if op.A == 0xff25 {
			bit := uint8(1) << uint(cas.X)
			if cas.S == 0 {
				bit <<= 4
			}
			if op.V&bit != 0 {
				o.sig, o.err = "bad-case", fmt.Errorf("op %d: NR51=%02x routes channel %d to side %d", i, op.V, cas.X+1, cas.S)
				return
			}
		}
	}
	p := c20Guarded(cas, true)
	if p.err != nil {
		p.err = fmt.Errorf("paired run: %v", p.err)
		p.feats = o.feats
		return p
	}
	side := []string{"left", "right"}[cas.S&1]
	if len(o.stream) != len(p.stream) {
		o.sig, o.err = "depends-on-unrouted-channel", fmt.Errorf("%s stream has %d samples, %d when only channel %d (never routed %s) is programmed differently", side, len(o.stream), len(p.stream), cas.X+1, side)
		return
	}
	for i := range o.stream {
		if o.stream[i] != p.stream[i] {
			o.sig, o.err = "depends-on-unrouted-channel", fmt.Errorf("%s sample %d is %v, but %v when only channel %d (never routed %s) is programmed differently", side, i, o.stream[i], p.stream[i], cas.X+1, side)
			return
		}
	}
	return o
}

func c20Run(cas c20Case) (string, error) {
	o := c20Exec(cas)
	return o.sig, o.err
}

func init() {
	vf.RegisterReplay("C20/samples", func(raw json.RawMessage) (string, error) {
		var c c20Case
		if err := json.Unmarshal(raw, &c); err != nil {
			return "", err
		}
		return c20Run(c)
	})
}

// ---------------------------------------------------------------------------

var c20Base = [4]uint16{0xff10, 0xff15, 0xff1a, 0xff1f}

func c20Gap(rt *rapid.T) int {
	switch rapid.IntRange(0, 9).Draw(rt, "gapkind") {
	case 0, 1, 2:
		return rapid.IntRange(0, 300).Draw(rt, "gap")
	case 3, 4, 5, 6:
		return rapid.IntRange(0, 30000).Draw(rt, "gapm")
	}
	return rapid.IntRange(0, 250000).Draw(rt, "gapl")
}

// c20ChunkGen draws one or more writes. x/s: channel never routed to side s (x<0: none).
func c20ChunkGen(x, s int) *rapid.Generator[[]c20Op] {
	mask := uint8(0xff)
	if x >= 0 {
		bit := uint8(1) << uint(x)
		if s == 0 {
			bit <<= 4
		}
		mask = ^bit
	}
	return rapid.Custom(func(rt *rapid.T) []c20Op {
		op := func(d int, a uint16, v uint8) c20Op {
			o := c20Op{D: d, A: a, V: v}
			if x >= 0 && c20ChannelOf(a) == x && rapid.IntRange(0, 3).Draw(rt, "perturb") > 0 {
				o.P, o.V2 = true, rapid.Byte().Draw(rt, "v2")
			}
			return o
		}
		ch := rapid.IntRange(0, 3).Draw(rt, "ch")
		b := c20Base[ch]
		switch k := rapid.IntRange(0, 99).Draw(rt, "kind"); {
		case k < 30: // start a channel audibly
			fhi := uint8(rapid.IntRange(0, 7).Draw(rt, "fhi"))
			le := uint8(0)
			if rapid.IntRange(0, 3).Draw(rt, "le") == 0 {
				le = 0x40
			}
			ops := []c20Op{}
			if ch == 2 {
				ops = append(ops, op(c20Gap(rt), 0xff1a, 0x80), op(0, 0xff1c, uint8(rapid.IntRange(1, 3).Draw(rt, "lvl"))<<5))
			} else {
				ops = append(ops, op(c20Gap(rt), b+2, rapid.SampledFrom([]uint8{0xf0, 0xf3, 0x80, 0x1a, 0xa7}).Draw(rt, "env")))
				if ch < 2 {
					ops = append(ops, op(0, b+1, rapid.Byte().Draw(rt, "duty")))
				}
			}
			if ch == 3 {
				ops = append(ops, op(0, 0xff22, rapid.Byte().Draw(rt, "nr43")))
			} else {
				ops = append(ops, op(0, b+3, rapid.Byte().Draw(rt, "flo")))
			}
			return append(ops, op(rapid.IntRange(0, 3).Draw(rt, "d"), b+4, 0x80|le|fhi))
		case k < 50: // routing
			v := rapid.SampledFrom([]uint8{0xf0, 0x0f, 0x00, 0xff, 0x10, 0x01, 0x20, 0x02, 0x40, 0x04, 0x80, 0x08, 0x12, 0x84}).Draw(rt, "nr51")
			if rapid.IntRange(0, 2).Draw(rt, "rawroute") == 0 {
				v = rapid.Byte().Draw(rt, "nr51raw")
			}
			return []c20Op{op(c20Gap(rt), 0xff25, v&mask)}
		case k < 58:
			return []c20Op{op(c20Gap(rt), 0xff24, rapid.SampledFrom([]uint8{0x77, 0x70, 0x07, 0x00, 0xff, 0x35}).Draw(rt, "nr50"))}
		case k < 66: // power
			switch rapid.IntRange(0, 3).Draw(rt, "pw") {
			case 0:
				return []c20Op{op(c20Gap(rt), 0xff26, 0x00)}
			case 1:
				return []c20Op{op(c20Gap(rt), 0xff26, 0x80)}
			}
			return []c20Op{op(c20Gap(rt), 0xff26, 0x00), op(rapid.IntRange(0, 60000).Draw(rt, "offfor"), 0xff26, 0x80), op(0, 0xff24, 0x77), op(0, 0xff25, rapid.Byte().Draw(rt, "nr51")&mask)}
		case k < 72: // wave RAM
			return []c20Op{op(c20Gap(rt), 0xff30+uint16(rapid.IntRange(0, 15).Draw(rt, "cell")), rapid.Byte().Draw(rt, "wv"))}
		case k < 78: // DAC off
			if ch == 2 {
				return []c20Op{op(c20Gap(rt), 0xff1a, 0x00)}
			}
			return []c20Op{op(c20Gap(rt), b+2, uint8(rapid.IntRange(0, 7).Draw(rt, "envlow")))}
		default: // any register, any value
			a := uint16(0xff10 + rapid.IntRange(0, 0x15).Draw(rt, "reg"))
			v := rapid.Byte().Draw(rt, "v")
			if a == 0xff25 {
				v &= mask
			}
			return []c20Op{op(c20Gap(rt), a, v)}
		}
	})
}

func c20GenCase(rt *rapid.T) c20Case {
	cas := c20Case{Attached: true, X: -1}
	if rapid.IntRange(0, 9).Draw(rt, "unattached") == 9 {
		cas.Attached = false
	}
	if cas.Attached && rapid.IntRange(0, 9).Draw(rt, "pairedrun") < 7 {
		cas.X = rapid.IntRange(0, 3).Draw(rt, "x")
		cas.S = rapid.IntRange(0, 1).Draw(rt, "s")
	}
	// 1.2 - 4 emulated seconds
	cas.Cycles = rapid.IntRange(c20Second*12/10, c20Second*4).Draw(rt, "cycles")
	if rapid.IntRange(0, 1).Draw(rt, "shorter") > 0 {
		cas.Cycles = rapid.IntRange(c20Second*12/10, c20Second*2).Draw(rt, "cycles2")
	}
	// initial routing and volume right after the fixed power cycle
	mask := uint8(0xff)
	if cas.X >= 0 {
		bit := uint8(1) << uint(cas.X)
		if cas.S == 0 {
			bit <<= 4
		}
		mask = ^bit
	}
	cas.Ops = append(cas.Ops, c20Op{A: 0xff24, V: 0x77}, c20Op{A: 0xff25, V: rapid.SampledFrom([]uint8{0xff, 0xf0, 0x0f, 0xff, 0x5a}).Draw(rt, "route0") & mask})
	for _, ch := range rapid.SliceOfN(c20ChunkGen(cas.X, cas.S), 1, 60).Draw(rt, "chunks") {
		cas.Ops = append(cas.Ops, ch...)
	}
	return cas
}

func TestC20(t *testing.T) {
	c := vf.New(t, "C20", "rapid register schedules over 1.2-4 emulated seconds (1.26-4.2 M machine cycles) after a fixed power cycle: channel starts (DAC on, frequency, trigger with/without length), NR51 routing values (one side only, single channels, none, all, random), NR50, power off/on/cycles, wave RAM writes, DAC off, arbitrary register writes, separated by drawn gaps of 0-250 000 cycles; "+
		"outputs attached in 9 of 10 cases; in 7 of 10 attached cases a channel X and a side S are drawn, every NR51 value is masked so that X is never routed to S, and a second run writes different values to X's registers. Samples are counted per machine cycle. "+
		"Non-trivial: attached, a non-zero sample was produced on some side and at least one full emulated second was counted. Distinct = hash of the case.")
	defer c.Flush()
	c.RunReplays()

	c.Rapid("schedules", 480, 9600, func(rt *rapid.T) {
		cas := c20GenCase(rt)
		o := c20Exec(cas)
		f := o.feats
		class := "attached/single-run"
		switch {
		case !cas.Attached:
			class = "unattached"
		case cas.X >= 0:
			class = fmt.Sprintf("attached/paired(ch%d never %s)", cas.X+1, []string{"left", "right"}[cas.S])
		}
		nt := cas.Attached && (f.nonzeroL || f.nonzeroR) && f.windows > 0
		c.Case(class, vf.Hash(cas), nt, func() interface{} { return cas })
		for _, fl := range []struct {
			on   bool
			name string
		}{
			{f.nonzeroL && f.nonzeroR, "feat:sound-on-both-sides"}, {f.nonzeroL != f.nonzeroR, "feat:sound-on-one-side-only"}, {!f.nonzeroL && !f.nonzeroR && cas.Attached, "feat:silent-throughout"},
			{f.zeroChecks > 0, "feat:unrouted-side-checked-silent"}, {f.poweredOffSpan, "feat:power-off-span"}, {f.seams > 0, "feat:irregular-gap-accepted(seam)"},
			{f.windows >= 1, "feat:full-second-window-counted"}, {f.windows >= 3, "feat:three-or-more-second-windows"}, {cas.Cycles > 2*c20Second, "feat:run>2-emulated-seconds"},
		} {
			if fl.on {
				c.Class(fl.name, 1)
			}
		}
		c.Class("count:seams", int64(f.seams))
		c.Class("count:second-windows", int64(f.windows))
		c.Class("count:zero-checked-samples", int64(f.zeroChecks))
		c.Class("count:sample-pairs", int64(f.pairs))
		if o.err != nil && !c.Fail("samples", o.sig, o.err.Error(), cas) {
			rt.Fatalf("%s: %v", o.sig, o.err)
		}
	})
}
