package checks

import (
	"fmt"
	"os"

	"verifharness/machine"
	"verifharness/refcpu"
)

// Lock-step execution of generated programs: the real CPU (stepped alone, one
// machine cycle at a time) against an instruction-level reference that knows
// about IME, the EI delay, dispatch, HALT and the halt bug. The reference
// reads memory from the machine at each instruction boundary, so it needs no
// memory model of its own; a guard ends the case before any instruction whose
// accesses leave the address classes the calling check allows.

type lsEvent struct {
	Cycle int `json:"cycle"` // global machine-cycle index: applied before that cycle executes
	Bit   int `json:"bit"`   // interrupt request bit 0..4
}

type lsCase struct {
	R         refcpu.Regs `json:"regs"`
	Code      []byte      `json:"code"` // placed at R.PC
	Handlers  [5][]byte   `json:"handlers"`
	Pokes     []cpuPoke   `json:"pokes,omitempty"`
	IME       bool        `json:"ime"`
	IE        uint8       `json:"ie"`
	IF        uint8       `json:"if"`
	Events    []lsEvent   `json:"events,omitempty"`
	MaxCycles int         `json:"max_cycles"`
	// Vec, when not empty (at most 8 bytes), is the code that the cartridge holds AT each of the five vectors
	// instead of the usual JP to the handler in work RAM (C04 runs such cases on a rig built with that cartridge)
	Vec []byte `json:"vec,omitempty"`
}

type lsPolicy struct {
	allowIF      bool // instructions may write FF0F
	allowHalt    bool
	checkCycles  bool // instruction lengths are part of the verdict (C02)
	checkInstr   bool // instruction effects are part of the verdict (otherwise resync silently)
	checkIRQ     bool // dispatch decisions, IF, pushed address, IME are part of the verdict (C04/C05)
	haltCBEither bool
	allowSerial  bool                     // instructions may access FF00-FF02
	onInstr      func(exp *refcpu.Result) // called after every executed instruction with the reference's prediction
}

type lsStats struct {
	Instrs, Dispatches, Idles, Wakes, HaltBugs, EIPendingBoundaries, Resyncs int
	PendingAtEI, CondTaken, CondNotTaken                                     int
	End                                                                      string
	Ops                                                                      map[string]bool
}

var lsTrace = os.Getenv("LS_TRACE") != ""

const lsHandlerBase = 0xd000 // handler i lives at lsHandlerBase + 0x40*i (vectors JP there)

func lsROM() []byte {
	rom := machine.MakeROM(0, 0, 0)
	for i := 0; i < 5; i++ {
		a := lsHandlerBase + 0x40*i
		v := 0x40 + 8*i
		rom[v], rom[v+1], rom[v+2] = 0xc3, byte(a), byte(a>>8)
	}
	return rom
}

func newLockstepRig() *cpuRig { return newLockstepRigROM(lsROM()) }

// lsVecROM: the handler code itself sits at the vectors
func lsVecROM(vec []byte) []byte {
	rom := machine.MakeROM(0, 0, 0)
	for i := 0; i < 5; i++ {
		copy(rom[0x40+8*i:0x48+8*i], vec)
	}
	return rom
}

func newLockstepRigROM(rom []byte) *cpuRig {
	m := machine.New(rom, nil, false)
	for i := 0; i < 300 && m.Mp.Read(0xff41)&3 != 0; i++ {
		m.HW()
	}
	m.Mp.Write(0xff40, 0)
	m.I.Disable()
	m.Mp.Write(0xff0f, 0)
	m.Mp.Write(0xffff, 0)
	m.Mp.Write(cpuScratchPC, 0)
	return &cpuRig{m: m}
}

func lsPlain(a uint16) bool {
	return a >= 0xc000 && a < 0xfe00 || a >= 0xff80 && a < 0xfff8 || a == 0xffff
}

func (rg *cpuRig) request(bit int) {
	switch bit {
	case 0:
		rg.m.I.RequestVblank()
	case 1:
		rg.m.I.RequestStat()
	case 2:
		rg.m.I.RequestTimer()
	case 3:
		rg.m.I.RequestSerial()
	case 4:
		rg.m.I.RequestJoypad()
	}
}

func lsLowest(v uint8) int {
	for b := 0; b < 5; b++ {
		if v&(1<<uint(b)) != 0 {
			return b
		}
	}
	return -1
}

// lockstep runs one case. It returns the first disagreement the policy makes
// part of the verdict.
func (rg *cpuRig) lockstep(cas *lsCase, pol lsPolicy) (st lsStats, sig string, err error) {
	m := rg.m
	st.Ops = map[string]bool{}
	// every case starts from zeroed work and high RAM, so that a saved case reproduces on its own
	for a := 0xc000; a < 0xe000; a++ {
		m.Mp.Write(uint16(a), 0)
	}
	for a := 0xff80; a < 0xfff8; a++ {
		m.Mp.Write(uint16(a), 0)
	}
	// load
	for _, p := range cas.Pokes {
		m.Mp.Write(p.A, p.V)
	}
	for i := 0; i < 5; i++ {
		for j, b := range cas.Handlers[i] {
			m.Mp.Write(uint16(lsHandlerBase+0x40*i+j), b)
		}
	}
	for i, b := range cas.Code {
		m.Mp.Write(cas.R.PC+uint16(i), b)
	}
	if e := rg.prep(cas.R, false); e != nil {
		return st, "rig-boundary", e
	}
	m.Mp.Write(0xffff, cas.IE)
	m.Mp.Write(0xff0f, cas.IF)
	if cas.IME {
		m.I.Enable()
	}
	defer func() {
		m.I.Disable()
		m.Mp.Write(0xff0f, 0)
		m.Mp.Write(0xffff, 0)
	}()

	r := cas.R
	ime := cas.IME
	eiDelay := 0 // 1 = the instruction after EI is about to run / running
	halted, haltbug, justWoke := false, false, false
	evIdx := 0
	events := cas.Events
	cyc := 0
	// applyEvents fires every event scheduled at or before the current cycle and returns the OR of their bits
	applyEvents := func() uint8 {
		var bits uint8
		for evIdx < len(events) && events[evIdx].Cycle <= cyc {
			rg.request(events[evIdx].Bit)
			bits |= 1 << uint(events[evIdx].Bit)
			evIdx++
		}
		return bits
	}
	codeOK := func(pc uint16) bool {
		return pc < 0x0100 || lsPlain(pc) && lsPlain(pc+2)
	}
	for cyc < cas.MaxCycles {
		evNow := applyEvents()
		_ = evNow
		ifr := m.Mp.Read(0xff0f) & 0x1f
		ier := m.Mp.Read(0xffff)
		pending := ifr & ier & 0x1f
		pre := r
		if lsTrace {
			fmt.Printf("cyc=%d pc=%04x op=%02x ime=%v eiDelay=%d halted=%v haltbug=%v IE=%02x IF=%02x sp=%04x hl=%04x a=%02x\n", cyc, r.PC, m.Mp.Read(r.PC), ime, eiDelay, halted, haltbug, ier, ifr, r.SP, r.HL(), r.A)
		}
		switch {
		case ime && pending != 0:
			// ---- dispatch ----
			if !lsPlain(pre.SP-1) || !lsPlain(pre.SP-2) {
				st.End = "stack-outside-plain-memory"
				return st, "", nil
			}
			want := 5
			if halted {
				want = 6
			}
			expIF := ifr
			n := 0
			for {
				if n > 0 {
					expIF |= applyEvents()
				}
				m.CPU.ExecuteMachineCycle()
				n++
				cyc++
				if m.CPU.VerifAtBoundary() || n >= 8 {
					break
				}
			}
			got := cpuFromHook(m.CPU.VerifGet())
			bitA := lsLowest(pending)
			bitB := lsLowest(expIF & ier)
			ok := false
			var chosen int
			for _, b := range []int{bitA, bitB} {
				if b >= 0 && got.PC == uint16(0x40+8*b) {
					ok, chosen = true, b
				}
			}
			st.Dispatches++
			if pol.checkIRQ {
				if !ok {
					if got.SP == pre.SP {
						return st, "missing-dispatch", fmt.Errorf("cycle %d: IME=1 IE=%02x IF=%02x at a boundary (PC=%04x) but no dispatch happened: now PC=%04x SP=%04x", cyc-n, ier, ifr, pre.PC, got.PC, got.SP)
					}
					return st, "dispatch-wrong-vector", fmt.Errorf("cycle %d: IME=1 IE=%02x IF=%02x: dispatched to PC=%04x, want vector %04x", cyc-n, ier, ifr, got.PC, 0x40+8*bitA)
				}
				if n != want {
					sig := "dispatch-length"
					if halted {
						sig = "dispatch-length-from-halt"
					}
					return st, sig, fmt.Errorf("cycle %d: dispatch took %d machine cycles, want %d (halted=%v)", cyc-n, n, want, halted)
				}
				if got.SP != pre.SP-2 || m.Mp.Read(got.SP) != uint8(pre.PC) || m.Mp.Read(got.SP+1) != uint8(pre.PC>>8) {
					return st, "dispatch-pushed-address", fmt.Errorf("cycle %d: dispatch pushed %02x%02x at SP=%04x, want return address %04x at %04x", cyc-n, m.Mp.Read(got.SP+1), m.Mp.Read(got.SP), got.SP, pre.PC, pre.SP-2)
				}
				if m.I.Enabled() {
					return st, "dispatch-ime-not-cleared", fmt.Errorf("cycle %d: master enable still set after dispatch", cyc-n)
				}
				if gotIF := m.Mp.Read(0xff0f) & 0x1f; gotIF != expIF&^(1<<uint(chosen)) {
					return st, "dispatch-if-bits", fmt.Errorf("cycle %d: IF=%02x after dispatching bit %d from IF=%02x, want %02x", cyc-n, gotIF, chosen, expIF, expIF&^(1<<uint(chosen)))
				}
				g2 := got
				g2.PC, g2.SP = pre.PC, pre.SP
				if g2 != pre {
					return st, "dispatch-clobbers-registers", fmt.Errorf("cycle %d: dispatch changed registers: %+v -> %+v", cyc-n, pre, got)
				}
			} else if !ok {
				st.End = "diverged-at-dispatch"
				return st, "", nil
			}
			r = got
			ime, eiDelay, halted, haltbug = false, 0, false, false
			if m.CPU.VerifHalted() && pol.checkIRQ {
				return st, "halted-after-dispatch", fmt.Errorf("cycle %d: still halted after dispatch", cyc)
			}
			continue
		case halted && pending == 0:
			// ---- idle ----
			m.CPU.ExecuteMachineCycle()
			cyc++
			st.Idles++
			got := cpuFromHook(m.CPU.VerifGet())
			if pol.checkIRQ {
				if got != pre {
					return st, "halt-not-idle", fmt.Errorf("cycle %d: halted with nothing pending (IE=%02x IF=%02x IME=%v) but registers changed %+v -> %+v", cyc, ier, ifr, ime, pre, got)
				}
				if gi := m.Mp.Read(0xff0f) & 0x1f; gi != ifr {
					return st, "halt-idle-if", fmt.Errorf("cycle %d: IF changed while idle %02x -> %02x", cyc, ifr, gi)
				}
			} else if got != pre {
				st.End = "diverged-at-idle"
				return st, "", nil
			}
			continue
		case halted:
			// ---- wake without dispatch (IME=0) ----
			st.Wakes++
			n := 0
			var got refcpu.Regs
			for {
				if n > 0 {
					applyEvents()
				}
				m.CPU.ExecuteMachineCycle()
				n++
				cyc++
				got = cpuFromHook(m.CPU.VerifGet())
				if m.CPU.VerifAtBoundary() || n >= 8 {
					break
				}
			}
			halted = false
			if got == pre && !m.CPU.VerifHalted() && n <= 2 {
				// woke up, nothing else happened: the following instruction comes next
				if pol.checkIRQ {
					if gi := m.Mp.Read(0xff0f) & 0x1f; gi&ifr != ifr {
						return st, "wake-cleared-if", fmt.Errorf("cycle %d: waking from HALT with IME=0 cleared a request: IF %02x -> %02x", cyc, ifr, gi)
					}
					if m.I.Enabled() {
						return st, "wake-enabled-ime", fmt.Errorf("cycle %d: waking from HALT with IME=0 set the master enable", cyc)
					}
				}
				justWoke = true
				continue
			}
			// the implementation may also run the following instruction straight away
			nx := refcpu.Step(pre, func(a uint16) uint8 {
				if lsPlain(a) || a < 0x8000 {
					return m.Mp.Read(a)
				}
				return 0
			}, false)
			if got == nx.R && n >= nx.Cycles && n <= nx.Cycles+2 && !nx.Undefined && !nx.Halt && !nx.Stop && nx.IME == refcpu.IMENone && len(nx.Acc) == 0 {
				r = got
				continue
			}
			if pol.checkIRQ {
				if got.PC >= 0x40 && got.PC <= 0x60 && got.SP == pre.SP-2 {
					return st, "wake-dispatched-with-ime0", fmt.Errorf("cycle %d: HALT with IME=0 woke by IE&IF=%02x dispatched to %04x", cyc, pending, got.PC)
				}
				return st, "wake-wrong", fmt.Errorf("cycle %d: HALT with IME=0 and IE&IF=%02x: after %d cycles registers %+v (before %+v), halted=%v", cyc, pending, n, got, pre, m.CPU.VerifHalted())
			}
			st.End = "diverged-at-wake"
			return st, "", nil
		}

		// ---- ordinary instruction ----
		if !codeOK(r.PC) {
			st.End = "pc-left-code-area"
			return st, "", nil
		}
		// the dry run must not touch anything outside the allowed classes either
		badRead := false
		exp := refcpu.Step(r, func(a uint16) uint8 {
			if lsPlain(a) || a < 0x8000 || a == 0xff0f || a <= 0xff02 && a >= 0xff00 {
				return m.Mp.Read(a)
			}
			badRead = true
			return 0
		}, haltbug)
		if badRead {
			st.End = "access-outside-allowed-memory"
			return st, "", nil
		}
		op0 := m.Mp.Read(r.PC)
		if exp.Undefined {
			st.End = "undefined-opcode"
			return st, "", nil
		}
		if exp.Stop || exp.Halt && !pol.allowHalt {
			st.End = "halt-or-stop"
			return st, "", nil
		}
		if haltbug && op0 == 0xcb {
			// How a CB prefix decodes under the halt bug is open between two readings: the hardware reads
			// the prefix twice (CB CB executes, then xx is fetched as an opcode), tetromino executes CB xx
			// and then fetches xx again as an opcode. Either way the prefixed instruction runs once and
			// execution resumes at the byte after the prefix; anything else is a violation.
			st.End = "haltbug-before-cb"
			if !pol.checkIRQ {
				return st, "", nil
			}
			rd := func(a uint16) uint8 {
				if lsPlain(a) || a < 0x8000 {
					return m.Mp.Read(a)
				}
				return 0
			}
			candT := refcpu.Step(r, rd, false)
			candH := refcpu.Step(r, func(a uint16) uint8 {
				if a == r.PC+1 {
					return 0xcb
				}
				return rd(a)
			}, false)
			candT.R.PC, candH.R.PC = r.PC+1, r.PC+1
			for _, cd := range []*refcpu.Result{&candT, &candH} {
				for _, a := range cd.Acc {
					if !lsPlain(a.Addr) || a.Write && a.Addr-r.PC < 3 {
						return st, "", nil
					}
				}
			}
			n := 0
			for {
				m.CPU.ExecuteMachineCycle()
				n++
				cyc++
				if m.CPU.VerifAtBoundary() || n >= 10 {
					break
				}
			}
			got := cpuFromHook(m.CPU.VerifGet())
			match := func(cd *refcpu.Result) bool {
				if got != cd.R {
					return false
				}
				for _, a := range cd.Acc {
					if a.Write && m.Mp.Read(a.Addr) != cpuLastWrite(*cd, a.Addr) {
						return false
					}
				}
				return true
			}
			st.HaltBugs++
			if !match(&candT) && !match(&candH) {
				return st, "haltbug-cb-decoding", fmt.Errorf("cycle %d: HALT with IME=0 and a pending request followed by CB %02x at %04x: the CPU ended with %+v; neither reading of the halt bug gives that (prefix read twice: %+v; CB %02x then %02x again: %+v; before %+v)",
					cyc-n, m.Mp.Read(r.PC+1), r.PC, got, candH.R, m.Mp.Read(r.PC+1), m.Mp.Read(r.PC+1), candT.R, r)
			}
			if m.CPU.VerifHaltbug() {
				return st, "haltbug-cb-decoding", fmt.Errorf("cycle %d: the halt bug was not consumed by the CB-prefixed instruction at %04x: the instruction after it would be fetched twice", cyc-n, r.PC)
			}
			return st, "", nil
		}
		for _, a := range exp.Acc {
			okA := lsPlain(a.Addr) || a.Addr < 0x8000 || pol.allowIF && a.Addr == 0xff0f || pol.allowSerial && a.Addr >= 0xff00 && a.Addr <= 0xff02
			if !okA {
				st.End = "access-outside-allowed-memory"
				return st, "", nil
			}
			// an instruction must not overwrite itself or the scratch NOP
			if a.Write && a.Addr-r.PC < 3 {
				st.End = "self-modifying"
				return st, "", nil
			}
		}
		if haltbug {
			st.HaltBugs++
		}
		special := pol.checkIRQ && (haltbug || justWoke)
		var snap []uint8
		if special {
			for _, a := range exp.Acc {
				snap = append(snap, m.Mp.Read(a.Addr))
			}
		}
		expIF := ifr
		n := 0
		var evDuring uint8
		readsIF := false
		for _, a := range exp.Acc {
			if !a.Write && a.Addr == 0xff0f {
				readsIF = true
			}
		}
		for {
			if n > 0 {
				e := applyEvents()
				evDuring |= e
				expIF |= e
			}
			for _, a := range exp.Acc {
				if a.Write && a.Addr == 0xff0f && a.Cycle == n+1 {
					expIF = a.Val & 0x1f
				}
			}
			m.CPU.ExecuteMachineCycle()
			n++
			cyc++
			if m.CPU.VerifAtBoundary() || n >= 10 {
				break
			}
		}
		got := cpuFromHook(m.CPU.VerifGet())
		st.Instrs++
		name := cpuOpName([]byte{op0, m.Mp.Read(pre.PC + 1)})
		st.Ops[name] = true
		if exp.Cond {
			if exp.Taken {
				st.CondTaken++
			} else {
				st.CondNotTaken++
			}
		}
		if readsIF && evDuring != 0 {
			// the value this instruction read from IF depends on the cycle the request arrived in: not modelled
			st.End = "if-read-raced-with-request"
			return st, "", nil
		}
		if special && (haltbug || got != exp.R) {
			// Control experiment: under the halt bug the byte after HALT is fetched twice, which is
			// exactly what a normal fetch from PC-1 sees when that byte is duplicated there; after a
			// plain wake-up the instruction must behave as it does from the same state without HALT.
			// Comparing the implementation with itself keeps instruction semantics (C01) out of the verdict.
			var post []uint8
			for _, a := range exp.Acc {
				post = append(post, m.Mp.Read(a.Addr))
			}
			for i, a := range exp.Acc {
				m.Mp.Write(a.Addr, snap[i])
			}
			ifNow, ieNow := m.Mp.Read(0xff0f), m.Mp.Read(0xffff)
			ctl := pre
			var saved uint8
			if haltbug {
				ctl.PC--
				saved = m.Mp.Read(ctl.PC)
				m.Mp.Write(ctl.PC, op0)
			}
			if e := rg.prep(ctl, false); e != nil {
				return st, "rig-boundary", e
			}
			m.Mp.Write(0xffff, ieNow)
			m.Mp.Write(0xff0f, ifr) // the value the instruction saw when it started
			_ = ifNow
			obs2 := rg.exec(10, nil, nil)
			same := obs2.R == got
			for i, a := range exp.Acc {
				if m.Mp.Read(a.Addr) != post[i] {
					same = false
				}
			}
			if haltbug {
				m.Mp.Write(ctl.PC, saved)
			}
			if !same {
				if haltbug {
					return st, "haltbug-byte-not-executed-twice", fmt.Errorf("cycle %d: HALT with IME=0 and a pending request: the following instruction %s at %04x left %+v, but executing its first byte twice gives %+v (before %+v)", cyc-n, name, pre.PC, got, obs2.R, pre)
				}
				return st, "wake-wrong-instruction", fmt.Errorf("cycle %d: after waking from HALT the instruction %s at %04x left %+v, but executed from the same state without HALT it gives %+v (before %+v)", cyc-n, name, pre.PC, got, obs2.R, pre)
			}
			st.End = "control-run"
			return st, "", nil
		}
		justWoke = false
		if got != exp.R {
			looksLikeDispatch := got.PC >= 0x40 && got.PC <= 0x60 && got.PC%8 == 0 && got.SP == pre.SP-2 && exp.R.PC != got.PC
			if pol.checkIRQ && looksLikeDispatch {
				return st, "unexpected-dispatch", fmt.Errorf("cycle %d: expected instruction %s at %04x to execute (IME=%v eiDelay=%d IE=%02x IF=%02x) but an interrupt was dispatched to %04x", cyc-n, name, pre.PC, ime, eiDelay, ier, ifr, got.PC)
			}
			if pol.checkInstr {
				return st, "instr-" + name, fmt.Errorf("cycle %d: instruction %s at %04x: got %+v want %+v (before %+v)", cyc-n, name, pre.PC, got, exp.R, pre)
			}
			if looksLikeDispatch {
				st.End = "diverged-unexpected-dispatch"
				return st, "", nil
			}
			st.Resyncs++
		}
		if pol.checkCycles && n != exp.Cycles {
			return st, "cycles-" + name, fmt.Errorf("cycle %d: instruction %s at %04x (flags %02x, taken=%v) took %d machine cycles, want %d", cyc-n, name, pre.PC, pre.F, exp.Taken, n, exp.Cycles)
		}
		if pol.checkInstr {
			for _, a := range exp.Acc {
				if a.Write && lsPlain(a.Addr) {
					if v := m.Mp.Read(a.Addr); v != cpuLastWrite(exp, a.Addr) {
						return st, "instr-" + name + "-mem", fmt.Errorf("cycle %d: instruction %s wrote mem[%04x]=%02x want %02x", cyc-n, name, a.Addr, v, cpuLastWrite(exp, a.Addr))
					}
				}
			}
		}
		if pol.checkIRQ {
			if gi := m.Mp.Read(0xff0f) & 0x1f; gi != expIF {
				return st, "if-changed-without-dispatch", fmt.Errorf("cycle %d: IF=%02x after instruction %s, want %02x (no dispatch happened; IF was %02x before, accesses %+v)", cyc-n, gi, name, expIF, ifr, exp.Acc)
			}
		}
		if pol.onInstr != nil {
			pol.onInstr(&exp)
		}
		r = got
		haltbug = false
		// IME bookkeeping (EI is delayed by one instruction, DI and RETI are immediate)
		if eiDelay == 1 {
			ime = true
			eiDelay = 0
		}
		switch exp.IME {
		case refcpu.IMEDisable:
			ime, eiDelay = false, 0
		case refcpu.IMEEnableNow:
			ime = true
		case refcpu.IMEEnableDelayed:
			if !ime {
				eiDelay = 1
				st.EIPendingBoundaries++
				if m.Mp.Read(0xff0f)&m.Mp.Read(0xffff)&0x1f != 0 {
					st.PendingAtEI++
				}
			}
		}
		if exp.Halt {
			pend := m.Mp.Read(0xff0f) & m.Mp.Read(0xffff) & 0x1f
			if ime || pend == 0 {
				halted = true
			} else {
				haltbug = true
			}
			if pol.checkIRQ {
				if m.CPU.VerifHalted() != halted {
					return st, "halt-state", fmt.Errorf("cycle %d: after HALT with IME=%v IE&IF=%02x the CPU is halted=%v, want %v", cyc, ime, pend, m.CPU.VerifHalted(), halted)
				}
			}
		}
		if pol.checkIRQ && eiDelay == 0 && m.I.Enabled() != ime {
			return st, "ime-state", fmt.Errorf("cycle %d: after instruction %s master enable is %v, want %v", cyc, name, m.I.Enabled(), ime)
		}
	}
	st.End = "max-cycles"
	return st, "", nil
}
