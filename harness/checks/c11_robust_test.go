package checks

import (
	"encoding/json"
	"fmt"
	"os"
	"runtime"
	"runtime/debug"
	"strings"
	"testing"
	"time"

	"pgregory.net/rapid"

	"verifharness/machine"
	"verifharness/refcpu"
	"verifharness/vf"
)

// C11 — no cartridge image or guest program can crash the emulator. Oracle:
// recover() around construction (a panic there is the allowed "fails during
// construction") and around every later step (a panic there is a violation).
// Undefined opcodes (a deliberate os.Exit in the code under test) are never
// executed: the harness peeks the opcode at every instruction boundary.

type c11Spec struct {
	CartType uint8  `json:"cart_type"`
	RomSize  uint8  `json:"rom_size"`
	RamSize  uint8  `json:"ram_size"`
	Len      int    `json:"len"`               // -1: the size the header declares
	Fill     uint64 `json:"fill_seed"`         // 0: zero fill
	Head     []byte `json:"head,omitempty"`    // overrides image[0:len(Head)] (arbitrary header bytes)
	Program  []byte `json:"program,omitempty"` // placed at 0x0100 (after Head)
	Far      bool   `json:"far,omitempty"`     // place Program at 0x0150 behind a JP at 0x0100, clear of the header bytes
	Raw      []byte `json:"raw,omitempty"`     // the image itself, byte for byte (native fuzzing); everything else is ignored
}

type c11Op struct {
	Kind string `json:"k"` // "w", "r", "run" (CPU+hardware cycles), "hw" (hardware-only cycles)
	A    uint16 `json:"a,omitempty"`
	V    uint8  `json:"v,omitempty"`
	N    int    `json:"n,omitempty"`
}

type c11Case struct {
	Spec c11Spec `json:"image"`
	Ops  []c11Op `json:"ops"`
}

func c11Build(s c11Spec) []byte {
	if s.Raw != nil {
		return append([]byte(nil), s.Raw...)
	}
	n := s.Len
	if n < 0 {
		n = (2 << (s.RomSize & 15)) * 0x4000
		if s.RomSize > 8 {
			n = 0x8000
		}
	}
	img := make([]byte, n)
	if s.Fill != 0 {
		mx := cpuMix(s.Fill)
		for i := 0; i+8 <= n; i += 8 {
			v := mx.next()
			for k := 0; k < 8; k++ {
				img[i+k] = byte(v >> (8 * uint(k)))
			}
		}
	}
	put := func(off int, b []byte) {
		for i, v := range b {
			if off+i < n {
				img[off+i] = v
			}
		}
	}
	put(0x147, []byte{s.CartType, s.RomSize, s.RamSize})
	put(0, s.Head)
	if s.Far {
		put(0x100, []byte{0xc3, 0x50, 0x01})
		put(0x150, s.Program)
	} else {
		put(0x100, s.Program)
	}
	return img
}

func c11Where() string {
	stack := string(debug.Stack())
	for _, line := range strings.Split(stack, "\n") {
		if i := strings.Index(line, "/repo/gameboy/"); i >= 0 {
			w := strings.TrimSpace(line[i+len("/repo/gameboy/"):])
			if j := strings.Index(w, " +0x"); j > 0 {
				w = w[:j]
			}
			return w
		}
	}
	return "?"
}

type c11Outcome struct {
	Rejected bool // construction panicked: allowed
	Steps    int
	Touched  bool // some post-construction step touched a cartridge window
	Stop     string
}

func c11Run(c c11Case) (out c11Outcome, sig string, err error) {
	img := c11Build(c.Spec)
	var m *machine.M
	func() {
		defer func() {
			if r := recover(); r != nil {
				out.Rejected = true
			}
		}()
		m = machine.New(img, nil, false)
	}()
	if out.Rejected {
		return out, "", nil
	}
	step := ""
	defer func() {
		if r := recover(); r != nil {
			w := c11Where()
			sig = "panic@" + w
			err = fmt.Errorf("image (type %02x, rom code %02x, ram code %02x, %d bytes) was accepted, then %s panicked: %v at %s", c.Spec.CartType, c.Spec.RomSize, c.Spec.RamSize, len(img), step, r, w)
		}
	}()
	// Direct "w"/"r" ops stand for data accesses of a guest program. The
	// earliest machine cycle in which a guest can make one is the second (the
	// first is the opcode fetch at 0100), so the hardware has always advanced
	// at least once before it; an access injected before the very first
	// hardware cycle would be a state no guest program can produce.
	step = "power-on hardware cycle"
	m.HW()
	for i, op := range c.Ops {
		out.Steps++
		switch op.Kind {
		case "w":
			step = fmt.Sprintf("op %d: write %04x=%02x", i, op.A, op.V)
			m.Mp.Write(op.A, op.V)
			if op.A < 0x8000 || op.A >= 0xa000 && op.A < 0xc000 {
				out.Touched = true
			}
		case "r":
			step = fmt.Sprintf("op %d: read %04x", i, op.A)
			m.Mp.Read(op.A)
			if op.A < 0x8000 || op.A >= 0xa000 && op.A < 0xc000 {
				out.Touched = true
			}
		case "hw":
			step = fmt.Sprintf("op %d: %d hardware cycles", i, op.N)
			for k := 0; k < op.N; k++ {
				m.HW()
			}
		case "run":
			for k := 0; k < op.N; k++ {
				if m.CPU.VerifAtBoundary() && !m.CPU.VerifHalted() && !m.CPU.VerifStopped() {
					pc := m.CPU.VerifGet().PC
					step = fmt.Sprintf("op %d: peek at %04x", i, pc)
					if refcpu.IsUndefined(m.Mp.Read(pc)) {
						out.Stop = "undefined-opcode"
						return out, "", nil
					}
				}
				if step = fmt.Sprintf("op %d: machine cycle %d of a run (pc=%04x)", i, k, m.CPU.VerifGet().PC); true {
					m.Cycle()
				}
			}
			out.Touched = true
		}
	}
	step = "DumpRAM"
	m.Mp.DumpRAM()
	return out, "", nil
}

func init() {
	vf.RegisterReplay("C11/crash", func(raw json.RawMessage) (string, error) {
		var c c11Case
		if err := json.Unmarshal(raw, &c); err != nil {
			return "", err
		}
		_, sig, err := c11Run(c)
		return sig, err
	})
}

var c11Types = []uint8{0x00, 0x01, 0x02, 0x03, 0x05, 0x06, 0x0f, 0x10, 0x11, 0x12, 0x13, 0x19, 0x1a, 0x1b, 0x1c, 0x1d, 0x1e}

var c11Lens = []int{0, 1, 2, 0x100, 0x146, 0x147, 0x148, 0x149, 0x14a, 0x14f, 0x150, 0x151, 0x3fff, 0x4000, 0x4001, 0x7fff, 0x8000, 0x8001, 0xc000, 0x10000, 0x12345}

// window probes after a write
var c11Probes = []uint16{0x0000, 0x3fff, 0x4000, 0x7fff, 0xa000, 0xa1ff, 0xbfff}

func c11GenProgram(rt *rapid.T) []byte {
	// programs that hammer cartridge registers, DMA, LCDC, the APU, HALT/STOP, with everything ticking
	var code []byte
	n := rapid.IntRange(5, 120).Draw(rt, "ninstr")
	fl := lsFlavour{irq: 3, halt: 1, flow: 4, mem: 5, raw: 3}
	if rapid.Bool().Draw(rt, "ram-first") {
		// like most real cartridges' start-up code: open cartridge RAM, leave something in it, look at it
		a := 0xa000 + rapid.IntRange(0, 0x1fff).Draw(rt, "ramaddr")
		code = append(code, 0x3e, 0x0a, 0xea, 0x00, 0x00, 0x3e, rapid.Byte().Draw(rt, "ramval"), 0xea, byte(a), byte(a>>8), 0xfa, 0x00, 0xa0, 0x47)
	}
	for i := 0; i < n; i++ {
		switch rapid.IntRange(0, 9).Draw(rt, "kind") {
		case 0, 1: // write a byte to an interesting address
			a := rapid.SampledFrom([]int{0x0000, 0x1fff, 0x2000, 0x2100, 0x3000, 0x4000, 0x5fff, 0x6000, 0x7fff, 0xa000, 0xbfff, 0xff40, 0xff41, 0xff45, 0xff46, 0xff04, 0xff05, 0xff07, 0xff0f, 0xffff,
				0xff10, 0xff14, 0xff19, 0xff1a, 0xff1e, 0xff23, 0xff26, 0xff30, 0xfe00, 0xfe9f, 0xfea0, 0x8000, 0x9fff, 0xff00, 0xff01, 0xff4a, 0xff4b}).Draw(rt, "addr")
			v := rapid.Byte().Draw(rt, "v")
			if a < 0x2000 && rapid.Bool().Draw(rt, "enable") {
				v = v&0xf0 | 0x0a // cartridge RAM enable
			}
			code = append(code, 0x3e, v, 0xea, byte(a), byte(a>>8))
			if rapid.IntRange(0, 3).Draw(rt, "readback") == 0 {
				// read something back into A (and keep it in a register that nothing below overwrites at once)
				r := rapid.SampledFrom([]int{0xa000, 0xa001, 0xa1ff, 0xbfff, 0x4000, 0x7fff, 0xff05, 0xff0f, 0xff41, 0xff44, 0xff26, 0xfe00, 0x8000, 0xc000}).Draw(rt, "raddr")
				code = append(code, 0xfa, byte(r), byte(r>>8), rapid.SampledFrom([]byte{0x47, 0x4f, 0x57, 0x5f, 0x67, 0x6f, 0xe0}).Draw(rt, "keep"))
				if code[len(code)-1] == 0xe0 {
					code = append(code, 0x01) // ... or send it out on the serial port
				}
			}
		case 2: // pointer into a hardware region
			a := rapid.SampledFrom([]int{0xfe00, 0xfe08, 0xfe9c, 0xfea0, 0xfeff, 0x8000, 0xa000, 0xbffe, 0xff00, 0xff46, 0x7ffe, 0x0000}).Draw(rt, "ptr")
			code = append(code, rapid.SampledFrom([]byte{0x01, 0x11, 0x21, 0x31}).Draw(rt, "ldrr"), byte(a), byte(a>>8))
		case 3: // pointer-walking instructions
			code = append(code, rapid.SampledFrom([]byte{0x03, 0x13, 0x23, 0x33, 0x0b, 0x1b, 0x2b, 0x3b, 0xc5, 0xd5, 0xe5, 0xf5, 0xc1, 0xd1, 0xe1, 0x22, 0x32, 0x2a, 0x3a, 0x02, 0x12, 0x0a, 0x1a, 0x34, 0x35, 0x36, 0x77, 0x7e, 0x10}).Draw(rt, "walk"))
		case 4: // loop back a little
			code = append(code, 0x3d, 0x20, byte(0x100-rapid.IntRange(3, 12).Draw(rt, "back")))
		default:
			code = append(code, lsGenInstr(rt, fl, n*2)...)
		}
	}
	return append(code, 0x18, 0xfe) // JR -2: spin
}

func TestC11(t *testing.T) {
	c := vf.New(t, "C11", "(a) rapid ROM images: hostile lengths (0, 1, around the header, page +-1, odd, multi-page) and well-sized images with arbitrary header bytes, followed by window reads, control writes and a CPU run; "+
		"(b) every supported cartridge type x ROM size code x RAM size code x every value written to every control region (with A8 variants), followed by reads of both ends of every window and a RAM write/read; "+
		"(c) rapid multi-step write/read sequences over the whole address space; (c2) every sound channel restarted at every phase of its period; (c3) the LCD switched off and on twelve times before V-blank with window and objects at their extremes; (d) rapid programs that hammer cartridge registers, DMA, LCDC, the APU, OAM pointers and HALT/STOP on the full machine for up to 60000 cycles. "+
		"Oracle: construction may panic (allowed); any later panic is a violation. Non-trivial: the image was accepted and a later step touched a cartridge window; distinct by case hash / by (type, sizes, region, value).")
	defer c.Flush()
	c.RunReplays()

	c.Sub("single-write", func(t *testing.T) {
		romSizes := []uint8{0, 1, 2, 3, 5, 8}
		if c.Env.Thorough() {
			romSizes = []uint8{0, 1, 2, 3, 4, 5, 6, 7, 8}
		}
		regions := []uint16{0x0000, 0x0100, 0x1fff, 0x2000, 0x2100, 0x3000, 0x3fff, 0x4000, 0x5fff, 0x6000, 0x7fff}
		var n, nt int64
		idx := 0
		for _, ct := range c11Types {
			for _, rs := range romSizes {
				for ram := uint8(0); ram <= 5; ram++ {
					idx++
					if !c.Env.Mine(idx) {
						continue
					}
					for _, reg := range regions {
						// one machine per region; each value is a write from whatever the previous value left (a multi-step history for big images, fresh for small ones)
						fresh := rs <= 2
						var base []c11Op
						for v := 0; v < 256; v++ {
							ops := []c11Op{{Kind: "w", A: 0x0000, V: 0x0a}, {Kind: "w", A: reg, V: uint8(v)}}
							for _, p := range c11Probes {
								ops = append(ops, c11Op{Kind: "r", A: p})
							}
							ops = append(ops, c11Op{Kind: "w", A: 0xa000 + uint16(v)*31, V: uint8(v)}, c11Op{Kind: "r", A: 0xa000 + uint16(v)*31})
							if fresh {
								cas := c11Case{Spec: c11Spec{CartType: ct, RomSize: rs, RamSize: ram, Len: -1}, Ops: ops}
								out, sig, err := c11Run(cas)
								n++
								if !out.Rejected {
									nt++
								}
								if err != nil {
									if known, first := c.FailFirst("crash", sig, err.Error(), cas); !known && first {
										t.Errorf("%v", err)
									}
								}
							} else {
								base = append(base, ops...)
							}
						}
						if !fresh {
							cas := c11Case{Spec: c11Spec{CartType: ct, RomSize: rs, RamSize: ram, Len: -1}, Ops: base}
							out, sig, err := c11Run(cas)
							n += 256
							if !out.Rejected {
								nt += 256
							}
							if err != nil {
								// find the first offending value with fresh machines
								for v := 0; v < 256 && err != nil; v++ {
									one := c11Case{Spec: cas.Spec, Ops: base[v*len(base)/256 : (v+1)*len(base)/256]}
									if _, s1, e1 := c11Run(one); e1 != nil {
										cas, sig, err = one, s1, e1
										break
									}
								}
								if known, first := c.FailFirst("crash", sig, err.Error(), cas); !known && first {
									t.Errorf("%v", err)
								}
							}
						}
					}
					if idx%37 == 0 {
						c.Sample("single-write", c11Case{Spec: c11Spec{CartType: ct, RomSize: rs, RamSize: ram, Len: -1}, Ops: []c11Op{{Kind: "w", A: 0x2000, V: 0x7f}, {Kind: "r", A: 0x4000}}})
					}
				}
			}
		}
		c.Bulk("single-write", n, nt)
		c.Exhaustive(fmt.Sprintf("%d cartridge types x ROM size codes %v x RAM size codes 0-5 x 11 control addresses x all 256 values, each followed by reads of 7 window probes and a RAM write/read", len(c11Types), romSizes))
	})

	// Sound channels restarted at every phase of their period: a trigger, a delay of d machine cycles, a
	// second trigger (the wave channel's restart-while-reading quirk, sweep and length reloads all depend on
	// where in its period the channel is), then a short run and reads of the status and wave RAM.
	c.Sub("apu-restart-phases", func(t *testing.T) {
		var n int64
		type chn struct {
			name             string
			dac, lo, hi, aux uint16
			dacV, auxV       uint8
			freqs            []int
		}
		waveF := []int{0x7ff, 0x7fe, 0x7fd, 0x7fc, 0x7fb, 0x7f8, 0x7f0, 0x7e0, 0x7c0, 0x780, 0x700, 0x600, 0x400, 0x000}
		sqF := []int{0x7ff, 0x7fe, 0x7f0, 0x700, 0x400, 0x000}
		chans := []chn{
			{"wave", 0xff1a, 0xff1d, 0xff1e, 0xff1c, 0x80, 0x20, waveF},
			{"square1-sweep", 0xff12, 0xff13, 0xff14, 0xff10, 0xf0, 0x11, sqF},
			{"square1-sweep-down", 0xff12, 0xff13, 0xff14, 0xff10, 0xf0, 0x1f, sqF},
			{"square2", 0xff17, 0xff18, 0xff19, 0xff16, 0xf0, 0x3f, sqF},
			{"noise", 0xff21, 0xff22, 0xff23, 0xff20, 0xf0, 0x3f, []int{0x00, 0x01, 0x08, 0x17, 0x0f, 0xd7, 0xf7}},
		}
		idx := 0
		for _, ch := range chans {
			for _, f := range ch.freqs {
				span := 2*16*(2048-f) + 6
				if ch.name != "wave" {
					span = 600
				}
				if span > c.Env.Pick(1100, 70000) {
					span = c.Env.Pick(1100, 70000)
				}
				for d := 0; d <= span; d++ {
					idx++
					if !c.Env.Mine(idx) {
						continue
					}
					trig := c11Op{Kind: "w", A: ch.hi, V: 0x80 | uint8(f>>8)&7}
					if ch.name == "noise" {
						trig.V = 0x80
					}
					for _, lenEn := range []uint8{0x00, 0x40} {
						t2 := trig
						t2.V |= lenEn
						cas := c11Case{Spec: c11Spec{Len: -1}, Ops: []c11Op{{Kind: "w", A: 0xff26, V: 0x80}, {Kind: "w", A: ch.dac, V: ch.dacV}, {Kind: "w", A: ch.aux, V: ch.auxV},
							{Kind: "w", A: ch.lo, V: uint8(f)}, trig, {Kind: "hw", N: d}, t2, {Kind: "hw", N: 40}, {Kind: "r", A: 0xff26}, {Kind: "r", A: 0xff30}, {Kind: "r", A: 0xff3f},
							{Kind: "w", A: ch.dac, V: 0x00}, {Kind: "w", A: ch.dac, V: ch.dacV}, t2, {Kind: "hw", N: 3}, {Kind: "w", A: 0xff26, V: 0x00}, {Kind: "w", A: 0xff26, V: 0x80}, t2, {Kind: "hw", N: 20}}}
						_, sig, err := c11Run(cas)
						n++
						if idx%4099 == 0 {
							c.Sample("apu-restart-phases", cas)
						}
						if err != nil {
							if known, first := c.FailFirst("crash", sig, err.Error(), cas); !known && first {
								t.Errorf("%v", err)
							}
						}
					}
				}
			}
		}
		c.Bulk("apu-restart-phases", n, n)
		c.Exhaustive("each sound channel triggered, then triggered again after every delay 0..2 wave periods (wave channel, 14 frequencies; quick: at most 1100 cycles) / 0..600 cycles (squares with and without sweep, noise), with and without length enable, followed by DAC and power cycling with further triggers")
	})

	// The LCD switched off and on again and again before the frame reaches V-blank, with window, objects and
	// scroll registers at their extremes: whatever the picture unit counts per frame must not run away.
	c.Sub("lcd-restarts", func(t *testing.T) {
		var n int64
		idx := 0
		wxs, wys := []uint8{7, 166}, []uint8{0, 100}
		if c.Env.Thorough() {
			wxs, wys = []uint8{0, 7, 87, 166, 200}, []uint8{0, 1, 100, 143}
		}
		for _, lcdc := range []uint8{0xf3, 0xb3, 0xe7, 0xfb, 0x91, 0xa1} {
			for _, line := range []int{1, 17, 100, 120, 140, 143} {
				for _, wx := range wxs {
					for _, wy := range wys {
						idx++
						if !c.Env.Mine(idx) {
							continue
						}
						ops := []c11Op{{Kind: "w", A: 0xff40, V: 0x00}, {Kind: "w", A: 0xff4a, V: wy}, {Kind: "w", A: 0xff4b, V: wx}, {Kind: "w", A: 0xff42, V: uint8(idx * 37)}, {Kind: "w", A: 0xff43, V: uint8(idx * 91)},
							{Kind: "w", A: 0xfe00, V: 16 + uint8(line)}, {Kind: "w", A: 0xfe01, V: 20}, {Kind: "w", A: 0xfe02, V: uint8(idx)}, {Kind: "w", A: 0xfe03, V: uint8(idx * 16)}}
						for k := 0; k < 12; k++ {
							ops = append(ops, c11Op{Kind: "w", A: 0xff40, V: lcdc}, c11Op{Kind: "hw", N: line*114 + (idx+k*29)%114}, c11Op{Kind: "w", A: 0xff40, V: lcdc &^ 0x80})
						}
						ops = append(ops, c11Op{Kind: "w", A: 0xff40, V: lcdc}, c11Op{Kind: "hw", N: 2 * 17556})
						cas := c11Case{Spec: c11Spec{Len: -1}, Ops: ops}
						_, sig, err := c11Run(cas)
						n++
						if idx%97 == 0 {
							c.Sample("lcd-restarts", cas)
						}
						if err != nil {
							if known, first := c.FailFirst("crash", sig, err.Error(), cas); !known && first {
								t.Errorf("%v", err)
							}
						}
					}
				}
			}
		}
		c.Bulk("lcd-restarts", n, n)
		c.Exhaustive("6 LCDC values (window/objects on and off, both maps) x 6 restart lines x WX {7,166} x WY {0,100} (thorough: 5 WX x 4 WY): the LCD switched off at that line and on again twelve times, then two full frames")
	})

	opGen := rapid.Custom(func(rt *rapid.T) c11Op {
		a := uint16(0)
		switch rapid.IntRange(0, 5).Draw(rt, "akind") {
		case 0:
			a = uint16(rapid.SampledFrom([]int{0x0000, 0x00ff, 0x0100, 0x1fff, 0x2000, 0x20ff, 0x2100, 0x2fff, 0x3000, 0x3fff, 0x4000, 0x5fff, 0x6000, 0x7fff, 0x8000, 0x9fff, 0xa000, 0xa1ff, 0xa200, 0xbfff, 0xc000, 0xdfff, 0xe000, 0xfdff, 0xfe00, 0xfe9f, 0xfea0, 0xfeff, 0xff00, 0xff46, 0xff7f, 0xff80, 0xffff}).Draw(rt, "addr"))
		case 1:
			a = uint16(rapid.IntRange(0, 0x7fff).Draw(rt, "addr"))
		case 2:
			a = uint16(rapid.IntRange(0xa000, 0xbfff).Draw(rt, "addr"))
		case 3:
			a = uint16(rapid.IntRange(0xfe00, 0xffff).Draw(rt, "addr"))
		default:
			a = rapid.Uint16().Draw(rt, "addr")
		}
		switch rapid.IntRange(0, 9).Draw(rt, "kind") {
		case 0, 1, 2, 3, 4:
			return c11Op{Kind: "w", A: a, V: rapid.Byte().Draw(rt, "v")}
		case 5, 6, 7, 8:
			return c11Op{Kind: "r", A: a}
		default:
			return c11Op{Kind: "hw", N: rapid.IntRange(1, 400).Draw(rt, "n")}
		}
	})
	specGen := rapid.Custom(func(rt *rapid.T) c11Spec {
		return c11Spec{CartType: rapid.SampledFrom(c11Types).Draw(rt, "type"), RomSize: uint8(rapid.IntRange(0, 6).Draw(rt, "rom")), RamSize: uint8(rapid.IntRange(0, 5).Draw(rt, "ram")), Len: -1,
			Fill: uint64(rapid.IntRange(0, 3).Draw(rt, "fill"))}
	})

	c.Rapid("images", 6000, 150000, func(rt *rapid.T) {
		var s c11Spec
		class := "image"
		switch rapid.IntRange(0, 3).Draw(rt, "shape") {
		case 0: // hostile length, arbitrary content
			s = c11Spec{Len: rapid.SampledFrom(c11Lens).Draw(rt, "len"), Fill: uint64(rapid.IntRange(0, 1<<30).Draw(rt, "fill"))}
			s.CartType, s.RomSize, s.RamSize = rapid.Byte().Draw(rt, "type"), rapid.Byte().Draw(rt, "rom"), rapid.Byte().Draw(rt, "ram")
			if rapid.Bool().Draw(rt, "supported-type") {
				s.CartType = rapid.SampledFrom(c11Types).Draw(rt, "stype")
			}
			class = "image-hostile-length"
		case 1: // well-sized, arbitrary header bytes (all cart types, all size codes)
			s = c11Spec{RomSize: uint8(rapid.IntRange(0, 3).Draw(rt, "rom")), Len: -1, Fill: uint64(rapid.IntRange(0, 1<<30).Draw(rt, "fill"))}
			s.CartType, s.RamSize = rapid.Byte().Draw(rt, "type"), rapid.Byte().Draw(rt, "ram")
			if rapid.Bool().Draw(rt, "lie-about-size") {
				s.Len = (2 << s.RomSize) * 0x4000
				s.RomSize = rapid.Byte().Draw(rt, "declared")
			}
			class = "image-arbitrary-header"
		case 2: // short image with a plausible header
			s = c11Spec{CartType: rapid.SampledFrom(c11Types).Draw(rt, "type"), RomSize: uint8(rapid.IntRange(0, 8).Draw(rt, "rom")), RamSize: uint8(rapid.IntRange(0, 5).Draw(rt, "ram")),
				Len: rapid.SampledFrom([]int{0x148, 0x149, 0x14a, 0x150, 0x200, 0x4000, 0x8000, 0x10000}).Draw(rt, "len")}
			class = "image-size-mismatch"
		default:
			s = specGen.Draw(rt, "spec")
			s.Head = rapid.SliceOfN(rapid.Byte(), 0, 0x150).Draw(rt, "head")
			class = "image-random-head"
		}
		s.Program = []byte{0x3e, 0x0a, 0xea, 0x00, 0x00, 0xfa, 0x00, 0xa0, 0xea, 0x00, 0xa0, 0x3e, rapid.Byte().Draw(rt, "bank"), 0xea, 0x00, 0x21, 0xfa, 0x00, 0x40, 0xfa, 0xff, 0x7f, 0x18, 0xfe}
		cas := c11Case{Spec: s}
		for _, p := range c11Probes {
			cas.Ops = append(cas.Ops, c11Op{Kind: "r", A: p})
		}
		cas.Ops = append(cas.Ops, rapid.SliceOfN(opGen, 0, 12).Draw(rt, "ops")...)
		cas.Ops = append(cas.Ops, c11Op{Kind: "run", N: rapid.IntRange(1, 3000).Draw(rt, "run")})
		out, sig, err := c11Run(cas)
		if out.Rejected {
			class += "-rejected"
		} else {
			class += "-accepted"
		}
		c.Case(class, vf.Hash(cas), !out.Rejected && out.Touched, func() interface{} { return cas })
		if err != nil {
			if !c.Fail("crash", sig, err.Error(), cas) {
				rt.Fatalf("%v", err)
			}
		}
	})

	c.Rapid("sequences", 6000, 200000, func(rt *rapid.T) {
		cas := c11Case{Spec: specGen.Draw(rt, "spec"), Ops: rapid.SliceOfN(opGen, 1, 60).Draw(rt, "ops")}
		out, sig, err := c11Run(cas)
		c.Case(fmt.Sprintf("sequence-type-%02x", cas.Spec.CartType), vf.Hash(cas), !out.Rejected && out.Touched, func() interface{} { return cas })
		if err != nil {
			if !c.Fail("crash", sig, err.Error(), cas) {
				rt.Fatalf("%v", err)
			}
		}
	})

	c.Rapid("programs", 3000, 100000, func(rt *rapid.T) {
		s := specGen.Draw(rt, "spec")
		s.Fill = 0
		s.Program = c11GenProgram(rt)
		s.Far = true
		// interrupt vectors return
		s.Head = make([]byte, 0x68)
		for v := 0x40; v <= 0x60; v += 8 {
			s.Head[v] = 0xd9
		}
		cas := c11Case{Spec: s, Ops: []c11Op{{Kind: "run", N: rapid.IntRange(500, 60000).Draw(rt, "cycles")}}}
		out, sig, err := c11Run(cas)
		class := "program"
		if out.Stop != "" {
			class += "-" + out.Stop
		}
		c.Case(class, vf.Hash(cas), !out.Rejected, func() interface{} { return cas })
		if err != nil {
			if !c.Fail("crash", sig, err.Error(), cas) {
				rt.Fatalf("%v", err)
			}
		}
	})
}

// c11FuzzCase decodes fuzzer bytes: the image is the data up to the last 64
// bytes (padded to the length the header declares when pad is odd), the tail
// becomes direct accesses, and the CPU then runs for a while.
func c11FuzzCase(data []byte, pad uint8) c11Case {
	tail := data
	img := data
	if len(data) > 64 {
		img, tail = data[:len(data)-64], data[len(data)-64:]
	}
	raw := append([]byte{}, img...)
	if pad&1 == 1 && len(raw) > 0x149 {
		want := 0x8000
		if raw[0x148] <= 8 {
			want = (2 << raw[0x148]) * 0x4000
		}
		if want > 1<<20 {
			want = 1 << 20
			raw[0x148] = 5
		}
		for len(raw) < want {
			raw = append(raw, raw[len(raw)%len(img)])
		}
		raw = raw[:want]
	}
	cas := c11Case{Spec: c11Spec{Raw: raw}}
	for i := 0; i+3 < len(tail); i += 4 {
		a := uint16(tail[i])<<8 | uint16(tail[i+1])
		switch tail[i+3] & 3 {
		case 0:
			cas.Ops = append(cas.Ops, c11Op{Kind: "r", A: a})
		case 3:
			cas.Ops = append(cas.Ops, c11Op{Kind: "hw", N: int(tail[i+2])})
		default:
			cas.Ops = append(cas.Ops, c11Op{Kind: "w", A: a, V: tail[i+2]})
		}
	}
	cas.Ops = append(cas.Ops, c11Op{Kind: "run", N: 3000})
	return cas
}

// FuzzC11Image is the coverage-guided byte-level target of the thorough tier:
// any byte string as a ROM image, then direct accesses and a CPU run. The
// oracle is the same as everywhere in C11 (no panic after construction).
func FuzzC11Image(f *testing.F) {
	for _, ct := range []byte{0x00, 0x01, 0x03, 0x06, 0x10, 0x13, 0x1b, 0x1e, 0xfc} {
		for _, rs := range []byte{0, 1, 7, 8, 0x52} {
			head := make([]byte, 0x150+64)
			head[0x100], head[0x101], head[0x102] = 0xc3, 0x50, 0x01
			head[0x147], head[0x148], head[0x149] = ct, rs, 3
			copy(head[0x150:], []byte{0x3e, 0x0a, 0xea, 0x00, 0x00, 0x3e, 0xff, 0xea, 0x00, 0x21, 0xea, 0x00, 0x40, 0xfa, 0x00, 0xa0, 0xea, 0xff, 0xbf, 0x31, 0x08, 0xfe, 0xc5, 0xc5, 0x18, 0xfe})
			f.Add(head, byte(1))
			f.Add(head, byte(0))
		}
	}
	f.Add([]byte{}, byte(0))
	f.Add(make([]byte, 0x147), byte(0))
	f.Add(make([]byte, 0x8000), byte(0))
	f.Fuzz(func(t *testing.T, data []byte, pad byte) {
		if len(data) > 1<<16 {
			return
		}
		cas := c11FuzzCase(data, pad)
		// diagnostics only: the fuzzing engine discards a worker's output and kills a worker whose
		// execution takes more than 10 s, so leave a stack dump behind when one is slow
		done := make(chan struct{})
		defer close(done)
		go func() {
			select {
			case <-done:
			case <-time.After(6 * time.Second):
				if dir := os.Getenv("VERIF_WORK"); dir != "" {
					buf := make([]byte, 1<<20)
					buf = buf[:runtime.Stack(buf, true)]
					os.WriteFile(fmt.Sprintf("%s/fuzz-slow-%d.txt", dir, os.Getpid()), append([]byte(fmt.Sprintf("len(data)=%d pad=%d image=%d bytes\n", len(data), pad, len(cas.Spec.Raw))), buf...), 0o644)
				}
			}
		}()
		_, sig, err := c11Run(cas)
		if err != nil {
			b, _ := json.Marshal(map[string]interface{}{"property": "C11", "check": "crash", "sig": sig, "msg": err.Error(), "case": cas})
			if dir := os.Getenv("VERIF_WORK"); dir != "" {
				os.WriteFile(dir+"/fail-C11-fuzz.json", b, 0o644)
			}
			t.Fatalf("%v", err)
		}
	})
}
