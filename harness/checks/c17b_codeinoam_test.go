package checks

import (
	"encoding/hex"
	"encoding/json"
	"fmt"

	"github.com/scottyw/tetromino/gameboy/cpu"
	"pgregory.net/rapid"

	"verifharness/machine"
	"verifharness/refcpu"
	"verifharness/vf"
)

// C17, second observer: the program itself lies in OAM.
//
// The first rows of OAM hold copies of one 8-byte loop (register-only one-cycle instructions, LD r,d8, closed by
// JR or JP back to the start of the row), the other rows random data. With the LCD on the CPU is put into that
// loop: every opcode and operand fetch is an OAM read, and those made in mode 2 set off the OAM bug - which the
// statement allows. What it does not allow is a change of OAM in a machine cycle that is nowhere near mode 2:
// the program performs no store and no DMA runs. OAM is watched through the access-free hook after EVERY machine
// cycle; a change is accepted only if the reference LCD counter (C13's) shows mode 2 in that cycle, in one of
// the two before it or in the one after it.
//
// Identical program rows are a fixed point of every corruption formula, so the loop itself survives the bug;
// the CPU is nevertheless checked at every instruction boundary (PC inside the row, opcode as placed) and the
// case ends quietly if it has left the loop (the instruction set is C01's subject).

type c17Code struct {
	Row   string `json:"row"`   // 8 bytes hex: the loop
	Rows  int    `json:"rows"`  // 1..4 leading rows hold the loop
	In    int    `json:"in"`    // row the CPU loops in (< Rows)
	Off   int    `json:"off"`   // offset of the first instruction executed (an instruction start of the loop)
	Data  string `json:"data"`  // 160 bytes hex; rows >= Rows are taken from here
	Idle  int    `json:"idle"`  // cycles between switch-on and the jump into OAM (>= 1: the store to FF40 is itself a CPU cycle, followed by that cycle's hardware step)
	Run   int    `json:"run"`   // cycles executed from OAM
	LCDOn bool   `json:"lcdon"` // false: the LCD is off throughout (no change at all is allowed)
}

// one-cycle, register-only opcodes
var c17OneCycle = func() []uint8 {
	l := []uint8{0x00, 0x04, 0x05, 0x0c, 0x0d, 0x14, 0x15, 0x1c, 0x1d, 0x24, 0x25, 0x2c, 0x2d, 0x3c, 0x3d, 0x07, 0x0f, 0x17, 0x1f, 0x27, 0x2f, 0x37, 0x3f}
	for op := 0x40; op <= 0xbf; op++ {
		if op&7 == 6 || (op >= 0x70 && op <= 0x77) {
			continue
		}
		l = append(l, uint8(op))
	}
	return l
}()

var c17LdImm = []uint8{0x06, 0x0e, 0x16, 0x1e, 0x26, 0x2e, 0x3e}

func c17IsOneCycle(op uint8) bool {
	for _, o := range c17OneCycle {
		if o == op {
			return true
		}
	}
	return false
}

// c17Starts validates the loop and returns the offsets at which its instructions start.
func c17Starts(row []uint8, base uint16) ([]int, error) {
	var st []int
	for i := 0; i < 8; {
		st = append(st, i)
		op := row[i]
		switch {
		case c17IsOneCycle(op):
			i++
		case op == 0x06 || op == 0x0e || op == 0x16 || op == 0x1e || op == 0x26 || op == 0x2e || op == 0x3e:
			if i+1 >= 8 {
				return nil, fmt.Errorf("LD r,d8 runs off the row")
			}
			i += 2
		case op == 0x18:
			if i != 6 || row[7] != 0xf8 {
				return nil, fmt.Errorf("JR must close the row (18 F8 at offset 6)")
			}
			return st, nil
		case op == 0xc3:
			if i != 5 || row[6] != uint8(base) || row[7] != uint8(base>>8) {
				return nil, fmt.Errorf("JP must close the row and target its start")
			}
			return st, nil
		default:
			return nil, fmt.Errorf("opcode %02x at offset %d is outside the generated set", op, i)
		}
	}
	return nil, fmt.Errorf("the row is not closed by a jump")
}

func c17RunCode(c c17Code) (sig string, err error, bugFired int, fetchesInMode2 int) {
	defer vf.Recover(&sig, &err)
	row, e1 := hex.DecodeString(c.Row)
	data, e2 := hex.DecodeString(c.Data)
	if e1 != nil || e2 != nil || len(row) != 8 || len(data) != 160 || c.Rows < 1 || c.Rows > 4 || c.In < 0 || c.In >= c.Rows || c.Idle < 1 || c.Idle > 3*c13Frame || c.Run < 1 || c.Run > 4*c13Frame {
		return "invalid-case", fmt.Errorf("case outside the domain"), 0, 0
	}
	base := 0xfe00 + uint16(8*c.In)
	starts, e := c17Starts(row, base)
	if e != nil {
		return "invalid-case", e, 0, 0
	}
	okStart := false
	for _, s := range starts {
		okStart = okStart || s == c.Off
	}
	if !okStart {
		return "invalid-case", fmt.Errorf("offset %d is not an instruction start", c.Off), 0, 0
	}
	m := machine.New(c17ROM, nil, false)
	m.I.Disable()
	m.Mp.Write(0xffff, 0)
	m.Mp.Write(0xff0f, 0)
	m.Mp.Write(0xff40, 0x11)
	var img [160]uint8
	copy(img[:], data)
	for r := 0; r < c.Rows; r++ {
		copy(img[8*r:], row)
	}
	for i, b := range img {
		m.Mp.Write(0xd000+uint16(i), b)
	}
	m.Mp.Write(0xff46, 0xd0)
	for i := 0; i < 170; i++ {
		m.HW()
	}
	if got := m.O.VerifBytes(); got != img {
		return "oam-load-failed", fmt.Errorf("OAM after the loading transfer differs from its source"), 0, 0
	}
	k := 0 // cycles since switch-on
	if c.LCDOn {
		m.Mp.Write(0xff40, 0x91)
		for ; k < c.Idle; k++ {
			m.HW()
		}
	}
	// a change in cycle number n (the n-th since switch-on) is acceptable iff the LCD shows mode 2 after one of
	// the cycles n-2..n+1
	near2 := func(n int) bool {
		if !c.LCDOn {
			return false
		}
		for i := n - 2; i <= n+1; i++ {
			if i < 0 {
				continue
			}
			if _, md := c13ObsAt(i); md == 2 {
				return true
			}
		}
		return false
	}
	regs := m.CPU.VerifGet()
	m.CPU.VerifSet(cpu.VerifRegs{A: regs.A, B: 0x12, C: 0x34, D: 0x56, E: 0x78, F: regs.F & 0xf0, H: 0xc1, L: 0x00, SP: 0xdff0, PC: base + uint16(c.Off)})
	before := m.O.VerifBytes()
	for i := 0; i < c.Run; i++ {
		if m.CPU.VerifAtBoundary() {
			pc := m.CPU.VerifGet().PC
			if pc < base || pc >= base+8 {
				return "", nil, bugFired, fetchesInMode2 // left the loop: not this property's subject
			}
			op := before[pc-0xfe00]
			if refcpu.IsUndefined(op) || op != row[pc-base] {
				return "", nil, bugFired, fetchesInMode2 // the loop itself was altered (in mode 2, or reported below already)
			}
		}
		m.CPU.ExecuteMachineCycle()
		m.HW()
		k++
		_, md := c13ObsAt(k)
		if c.LCDOn && md == 2 {
			fetchesInMode2++
		}
		after := m.O.VerifBytes()
		if after != before {
			if !near2(k) {
				first := 0
				for first < 160 && after[first] == before[first] {
					first++
				}
				pos := c13PosAt(k)
				sig = "oam-altered-outside-mode2-by-code-in-oam"
				lcd := "LCD off"
				if c.LCDOn {
					lcd = fmt.Sprintf("LCD on, %d cycles after switch-on: line %d cycle %d, mode %d", k, pos/c13Line, pos%c13Line, md)
				}
				return sig, fmt.Errorf("code looping in OAM row %d (no store, no DMA): in machine cycle %d of the run (%s; no mode 2 within two cycles before or one after) OAM[%d] changed %02x -> %02x",
					c.In, i, lcd, first, before[first], after[first]), bugFired, fetchesInMode2
			}
			bugFired++
			before = after
		}
	}
	return "", nil, bugFired, fetchesInMode2
}

func init() {
	vf.RegisterReplay("C17/code-in-oam", func(raw json.RawMessage) (string, error) {
		var c c17Code
		if err := json.Unmarshal(raw, &c); err != nil {
			return "", err
		}
		sig, err, _, _ := c17RunCode(c)
		return sig, err
	})
}

var c17CodeGen = rapid.Custom(func(rt *rapid.T) c17Code {
	var c c17Code
	c.Rows = rapid.IntRange(1, 4).Draw(rt, "rows")
	c.In = rapid.IntRange(0, c.Rows-1).Draw(rt, "in")
	base := 0xfe00 + uint16(8*c.In)
	row := make([]uint8, 0, 8)
	body := 6
	if rapid.IntRange(0, 2).Draw(rt, "close") == 0 {
		body = 5
	}
	for len(row) < body {
		if body-len(row) >= 2 && rapid.IntRange(0, 5).Draw(rt, "imm") == 0 {
			row = append(row, rapid.SampledFrom(c17LdImm).Draw(rt, "ld"), rapid.Byte().Draw(rt, "d8"))
		} else {
			row = append(row, rapid.SampledFrom(c17OneCycle).Draw(rt, "op"))
		}
	}
	if body == 6 {
		row = append(row, 0x18, 0xf8)
	} else {
		row = append(row, 0xc3, uint8(base), uint8(base>>8))
	}
	c.Row = hex.EncodeToString(row)
	starts, _ := c17Starts(row, base)
	c.Off = rapid.SampledFrom(starts).Draw(rt, "off")
	c.Data = hex.EncodeToString(rapid.SliceOfN(rapid.Byte(), 160, 160).Draw(rt, "data"))
	c.LCDOn = rapid.IntRange(0, 7).Draw(rt, "lcd") != 0
	switch rapid.IntRange(0, 3).Draw(rt, "idlesel") {
	case 0:
		c.Idle = rapid.IntRange(0, 130).Draw(rt, "idle-first-line")
	case 1:
		c.Idle = rapid.IntRange(0, c13Frame+200).Draw(rt, "idle")
	default:
		// land shortly before or inside a mode 2
		var l c13LCD
		l.SwitchOn()
		c.Idle = l.c13StepsTo(rapid.IntRange(0, 144).Draw(rt, "line"), rapid.IntRange(0, 30).Draw(rt, "t")) + c13Frame*rapid.IntRange(0, 1).Draw(rt, "frame")
		if rapid.IntRange(0, 1).Draw(rt, "before") == 0 {
			c.Idle -= rapid.IntRange(0, 12).Draw(rt, "lead")
		}
	}
	if c.Idle < 1 {
		c.Idle = 1
	}
	c.Run = rapid.IntRange(30, 700).Draw(rt, "run")
	return c
})
