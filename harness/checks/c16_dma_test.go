package checks

import (
	"encoding/json"
	"fmt"
	"sort"
	"testing"

	"pgregory.net/rapid"

	"verifharness/machine"
	"verifharness/vf"
)

// C16 — an OAM DMA transfer copies 160 bytes and blocks OAM meanwhile.
//
// Reference model (Pan Docs "OAM DMA Transfer"; mooneye oam_dma timing): a
// write of XX to FF46 at cycle s starts a transfer of XX00-XX9F (E000-F19F
// through the work RAM mirror). Byte i is nominally copied in cycle s+2+i.
// OAM reads FF in cycles s+2 .. s+160 and holds the copied bytes from cycle
// s+162 on. Cycles s, s+1 and s+161 are not asserted, and a source byte that is
// modified within two cycles of its slot may be copied with either value.
// A restart abandons the running transfer; only the last one's result is
// observable, because OAM stays blocked in between.
//
// Time is counted in Mapper.EndMachineCycle calls since the first FF46 write;
// at every cycle the events of that cycle are applied, then all of FE00-FEFF
// is read, then the cycle ends.

type c16Fill struct {
	Page uint8  `json:"page"`
	Seed uint16 `json:"seed"` // 160 bytes of c16Pattern(seed, i) are placed at page<<8 before the first transfer
}

type c16Ev struct {
	At   int    `json:"at"`          // cycle (0 = right after the first FF46 write)
	K    string `json:"k"`           // "dma": write Page to FF46; "poke": write V to byte I of page Page
	Page uint8  `json:"page"`        //
	I    uint8  `json:"i,omitempty"` //
	V    uint8  `json:"v,omitempty"` //
}

type c16Case struct {
	Cart  uint8     `json:"cart"`
	Page  uint8     `json:"page"`
	Fills []c16Fill `json:"fills"`
	Evs   []c16Ev   `json:"evs"`  // sorted by At
	Tail  int       `json:"tail"` // cycles observed after the last transfer has completed
}

func c16Pattern(seed uint16, i int) uint8 {
	x := uint32(seed)*2654435761 + uint32(i)*40503 + 0x9e37
	x ^= x >> 13
	x *= 0x85ebca6b
	x ^= x >> 16
	return uint8(x)
}

// c16Canon maps a source address to the memory cell it reads.
func c16Canon(a int) int {
	if a >= 0xe000 {
		return a - 0x2000
	}
	return a
}

func c16PageAllowed(cart, page uint8) bool {
	if page > 0xf1 {
		return false
	}
	if page >= 0xa0 && page <= 0xbf {
		// cartridge RAM as a source needs a controller whose RAM C09 finds in order on the tree
		// as it stands: MBC1 and MBC3 bank 0 (ROM-only and MBC5 windows are C09 findings)
		return cart == 0x03 || cart == 0x13
	}
	return true
}

type c16Hist struct {
	at  int
	val uint8
}

type c16Transfer struct {
	start int
	page  uint8
	next  int // start of the following transfer (or a large number)
}

func c16Run(c c16Case) (sig string, err error) {
	sig, err = c16RunInner(c)
	if sig == "panic" {
		sig = "dma-panic"
	}
	return sig, err
}

func c16RunInner(c c16Case) (sig string, err error) {
	defer vf.Recover(&sig, &err)
	if c.Cart != 0x00 && c.Cart != 0x03 && c.Cart != 0x13 && c.Cart != 0x1b {
		return "bad-case", fmt.Errorf("cart %02x outside the domain", c.Cart)
	}
	if !c16PageAllowed(c.Cart, c.Page) || c.Tail < 0 || c.Tail > 64 {
		return "bad-case", fmt.Errorf("page %02x / tail %d outside the domain", c.Page, c.Tail)
	}
	romSize := uint8(1)
	if c.Cart == 0x00 {
		romSize = 0
	}
	rom := machine.MakeROM(c.Cart, romSize, 3)
	// the model's view of every source byte: value before the first transfer (-1 = unknown) and later modifications
	base := make([]int16, 0x10000)
	for i := range base {
		base[i] = -1
	}
	pokes := map[int][]c16Hist{}
	for _, f := range c.Fills {
		if !c16PageAllowed(c.Cart, f.Page) {
			return "bad-case", fmt.Errorf("fill page %02x outside the domain", f.Page)
		}
		if f.Page < 0x80 && int(f.Page)<<8 < len(rom) {
			for i := 0; i < 160; i++ {
				rom[int(f.Page)<<8+i] = c16Pattern(f.Seed, i)
			}
		}
	}
	rom[0x147], rom[0x148], rom[0x149] = c.Cart, romSize, 3
	for a := 0; a < 0x8000 && a < len(rom); a++ {
		// 4000-7FFF shows page 1 at reset on every controller
		base[a] = int16(rom[a])
	}
	hw := machine.NewHW(rom, nil, false)
	mp := hw.Mp
	mp.Write(0xff40, 0x00) // LCD off: VRAM and OAM are plain memory
	mp.Write(0x0000, 0x0a) // cartridge RAM on
	for _, f := range c.Fills {
		if f.Page < 0x80 {
			continue
		}
		for i := 0; i < 160; i++ {
			a := int(f.Page)<<8 + i
			v := c16Pattern(f.Seed, i)
			mp.Write(uint16(a), v)
			base[c16Canon(a)] = int16(v)
		}
	}
	// transfers
	trs := []c16Transfer{{start: 0, page: c.Page, next: 1 << 30}}
	last := -1
	for _, e := range c.Evs {
		if e.At < last || e.At < 0 || e.At > 2000 {
			return "bad-case", fmt.Errorf("events must be sorted by time within 0..2000")
		}
		last = e.At
		switch e.K {
		case "dma":
			if !c16PageAllowed(c.Cart, e.Page) {
				return "bad-case", fmt.Errorf("restart page %02x outside the domain", e.Page)
			}
			trs[len(trs)-1].next = e.At
			trs = append(trs, c16Transfer{start: e.At, page: e.Page, next: 1 << 30})
		case "poke":
			if !c16PageAllowed(c.Cart, e.Page) || e.I >= 160 {
				return "bad-case", fmt.Errorf("poke %02x:%d outside the domain", e.Page, e.I)
			}
		default:
			return "bad-case", fmt.Errorf("unknown event %q", e.K)
		}
	}
	// OAM starts as the complement of the first source so that every copied byte is a change
	for i := 0; i < 160; i++ {
		v := uint8(0x5a)
		if b := base[c16Canon(int(c.Page)<<8+i)]; b >= 0 {
			v = ^uint8(b)
		}
		mp.Write(0xfe00+uint16(i), v)
	}
	end := trs[len(trs)-1].start + 162 + c.Tail

	valueAt := func(cell, t int) (uint8, bool) {
		if base[cell] < 0 {
			return 0, false
		}
		v := uint8(base[cell])
		for _, x := range pokes[cell] {
			if x.at <= t {
				v = x.val
			}
		}
		return v, true
	}
	restarted := func(k int) bool { return k > 0 && trs[k-1].start+162 > trs[k].start }

	mp.Write(0xff46, c.Page)
	evi := 0
	var seen [160]int // first value observed after completion of the current transfer (-1 = none yet)
	seenFor := -1
	var buf [256]uint8
	for t := 0; t <= end; t, _ = t+1, c16Tick(hw) {
		for evi < len(c.Evs) && c.Evs[evi].At == t {
			e := c.Evs[evi]
			evi++
			if e.K == "dma" {
				mp.Write(0xff46, e.Page)
				continue
			}
			if e.Page < 0x80 {
				continue // ROM cannot be modified
			}
			a := int(e.Page)<<8 + int(e.I)
			mp.Write(uint16(a), e.V)
			cell := c16Canon(a)
			pokes[cell] = append(pokes[cell], c16Hist{t, e.V})
		}
		for a := 0; a < 256; a++ {
			buf[a] = mp.Read(0xfe00 + uint16(a))
		}
		// which transfer does cycle t belong to?
		k := 0
		for k+1 < len(trs) && trs[k+1].start <= t {
			k++
		}
		tr := trs[k]
		// the register reads back the last value written, whatever the transfer is doing (C06 states this; a
		// restart inside a running transfer is only produced here)
		if got := mp.Read(0xff46); got != tr.page {
			return "ff46-readback-after-restart", fmt.Errorf("cycle %d: FF46 reads %02x, the last value written (at cycle %d) is %02x", t, got, tr.start, tr.page)
		}
		rel := t - tr.start
		switch {
		case rel >= 2 && rel <= 160:
			for a := 0; a < 256; a++ {
				if buf[a] != 0xff {
					return "dma-read-not-blocked", fmt.Errorf("cycle %d (cycle %d of the transfer from page %02x started at %d): read of %04x = %02x, want FF while the copy runs", t, rel, tr.page, tr.start, 0xfe00+a, buf[a])
				}
			}
		case rel >= 162:
			if seenFor != k {
				seenFor = k
				for i := range seen {
					seen[i] = -1
				}
			}
			var bad []int
			allFF := true
			var firstMsg string
			for i := 0; i < 160; i++ {
				if buf[i] != 0xff {
					allFF = false
				}
				if seen[i] >= 0 && int(buf[i]) != seen[i] {
					return "dma-oam-changed-after-transfer", fmt.Errorf("cycle %d: OAM[%d] = %02x, was %02x when the transfer from page %02x completed", t, i, buf[i], seen[i], tr.page)
				}
				seen[i] = int(buf[i])
				cell := c16Canon(int(tr.page)<<8 + i)
				slot := tr.start + 2 + i
				ok, known := false, false
				var cands []uint8
				for tt := slot - 3; tt <= slot+2; tt++ {
					if v, kn := valueAt(cell, tt); kn {
						known = true
						cands = append(cands, v)
						if v == buf[i] {
							ok = true
						}
					}
				}
				if known && !ok {
					bad = append(bad, i)
					if firstMsg == "" {
						firstMsg = fmt.Sprintf("OAM[%d] = %02x, source %04x held %02x around its slot (cycle %d)", i, buf[i], int(tr.page)<<8+i, cands, slot)
					}
				}
			}
			if len(bad) == 0 {
				continue
			}
			s := "dma-byte-mismatch"
			switch {
			case allFF:
				s = "dma-not-complete-after-162"
			case bad[0] >= 156:
				s = "dma-tail-not-copied"
			case restarted(k):
				s = "dma-restart-wrong-bytes"
			case tr.page >= 0xe0:
				s = "dma-echo-source-wrong"
			}
			return s, fmt.Errorf("cycle %d (%d after the FF46 write of %02x at %d, restart of a running transfer: %v): %d byte(s) wrong, first: %s", t, rel, tr.page, tr.start, restarted(k), len(bad), firstMsg)
		}
	}
	return "", nil
}

// c16Tick ends one machine cycle of the address decoder (which drives the transfer).
func c16Tick(hw *machine.M) int {
	hw.Mp.EndMachineCycle()
	return 0
}

func c16Analyse(c c16Case) (class string, feats []string) {
	region := func(p uint8) string {
		switch {
		case p < 0x80:
			return "rom"
		case p < 0xa0:
			return "vram"
		case p < 0xc0:
			return "cartram"
		case p < 0xe0:
			return "wram"
		}
		return "echo"
	}
	class = region(c.Page)
	start := 0
	for _, e := range c.Evs {
		switch e.K {
		case "dma":
			if e.At < start+162 {
				feats = append(feats, "restart-running")
				if e.At-start <= 2 {
					feats = append(feats, "restart-in-startup")
				}
			} else {
				feats = append(feats, "second-transfer-after-completion")
			}
			feats = append(feats, "restart-to-"+region(e.Page))
			start = e.At
		case "poke":
			if e.Page >= 0x80 {
				d := e.At - (start + 2 + int(e.I))
				switch {
				case d < -2:
					feats = append(feats, "poke-before-slot")
				case d > 2:
					feats = append(feats, "poke-after-slot")
				default:
					feats = append(feats, "poke-within-2-of-slot")
				}
			}
		}
	}
	sort.Strings(feats)
	return class, feats
}

func init() {
	for _, chk := range []string{"pages", "restart", "poke", "random"} {
		vf.RegisterReplay("C16/"+chk, func(raw json.RawMessage) (string, error) {
			var c c16Case
			if err := json.Unmarshal(raw, &c); err != nil {
				return "", err
			}
			return c16Run(c)
		})
	}
}

type c16Enum struct {
	c     *vf.Collector
	check string
	first map[string]c16Case
	msg   map[string]string
}

func c16NewEnum(c *vf.Collector, check string) *c16Enum {
	return &c16Enum{c: c, check: check, first: map[string]c16Case{}, msg: map[string]string{}}
}

func (e *c16Enum) fail(sig string, err error, cas c16Case) {
	if e.c.OpenKnown(sig) {
		e.c.Fail(e.check, sig, err.Error(), cas)
		return
	}
	e.c.Class("violation:"+sig, 1)
	if _, ok := e.first[sig]; !ok {
		e.first[sig], e.msg[sig] = cas, err.Error()
	}
}

func (e *c16Enum) finish(t *testing.T) {
	if len(e.first) == 0 {
		return
	}
	var sigs []string
	for s := range e.first {
		sigs = append(sigs, s)
	}
	sort.Strings(sigs)
	s := sigs[e.c.Env.Shard%len(sigs)]
	e.c.Fail(e.check, s, e.msg[s], e.first[s])
	for _, s := range sigs {
		t.Errorf("%s: sig=%s %s", e.check, s, e.msg[s])
	}
}

var c16CartList = []uint8{0x00, 0x03, 0x13, 0x1b}

func TestC16(t *testing.T) {
	c := vf.New(t, "C16", "enumerations: every source page 00-F1 x cartridge types {00,03,13,1B} (cartridge RAM pages on 03/13) x pseudo-random source contents; a restart at every cycle 0..175 of a running transfer for ten page pairs (three: a page and its echo alias); "+
		"a source byte modified at every cycle 0..175 for bytes {0,1,80,158,159} in VRAM, cartridge RAM, WRAM and echo sources; plus rapid cases (random page, contents, up to 6 restarts/modifications, tail). "+
		"All of FE00-FEFF is read at every cycle: FF in cycles 2..160 of a transfer, source bytes (either value if modified within 2 cycles of the slot) from cycle 162. "+
		"Plus rapid 'cpu-polling' cases on the whole machine: a guest program starts the transfer at a drawn point of an LCD line (LCD on in 4 of 5) and polls FE00-FEFF up to 70 times inside it; OAM must equal the source afterwards. "+
		"Every case is non-trivial (OAM starts as the complement of the source, so every copied byte is a change); distinct = hash of the case.")
	defer c.Flush()
	c.RunReplays()

	c.Sub("pages", func(t *testing.T) {
		en := c16NewEnum(c, "pages")
		defer en.finish(t)
		variants := c.Env.Pick(3, 24)
		var n int64
		idx := 0
		for page := 0; page <= 0xf1; page++ {
			for _, cart := range c16CartList {
				if !c16PageAllowed(cart, uint8(page)) {
					continue
				}
				for v := 0; v < variants; v++ {
					idx++
					if !c.Env.Mine(idx) {
						continue
					}
					seed := uint16(page*131 + int(cart)*17 + v*7919 + int(c.Env.Seed)*31)
					cas := c16Case{Cart: cart, Page: uint8(page), Fills: []c16Fill{{uint8(page), seed}}, Tail: v % 5}
					cl, _ := c16Analyse(cas)
					c.Class("pages:"+cl, 1)
					n++
					if n%40 == 1 {
						c.Sample("page", cas)
					}
					if sig, err := c16Run(cas); err != nil {
						en.fail(sig, err, cas)
					}
				}
			}
		}
		c.Bulk("page", n, n)
		c.Exhaustive("every source page 00-F1 x cartridge type {00,03,13,1B} (A0-BF on 03/13 only)")
	})

	c.Sub("restart-every-cycle", func(t *testing.T) {
		en := c16NewEnum(c, "restart")
		defer en.finish(t)
		pairs := [][2]uint8{{0xc0, 0xc1}, {0xc0, 0x80}, {0x80, 0xe1}, {0xa0, 0x3f}, {0x40, 0xdf}, {0xf1, 0xc0}, {0xc3, 0xc3}, {0xe3, 0xc3}, {0xc3, 0xe3}, {0xf1, 0xd1}} // the last three: a page and its echo alias (same bytes, different register value)
		var n int64
		idx := 0
		for pi, p := range pairs {
			for r := 0; r <= 175; r++ {
				idx++
				if !c.Env.Mine(idx) {
					continue
				}
				cas := c16Case{Cart: 0x03, Page: p[0], Fills: []c16Fill{{p[0], uint16(r*7 + pi)}, {p[1], uint16(r*7 + pi + 1000)}},
					Evs: []c16Ev{{At: r, K: "dma", Page: p[1]}}, Tail: 3}
				if p[0] == p[1] {
					cas.Fills = cas.Fills[:1]
				}
				_, feats := c16Analyse(cas)
				for _, f := range feats {
					c.Class("restart:"+f, 1)
				}
				n++
				if n%60 == 1 {
					c.Sample("restart", cas)
				}
				if sig, err := c16Run(cas); err != nil {
					en.fail(sig, err, cas)
				}
			}
		}
		c.Bulk("restart", n, n)
		c.Exhaustive("a second FF46 write at every cycle 0..175 after the first, ten source page pairs (three of them a page and its echo alias)")
	})

	c.Sub("poke-every-cycle", func(t *testing.T) {
		en := c16NewEnum(c, "poke")
		defer en.finish(t)
		var n int64
		idx := 0
		for _, page := range []uint8{0x88, 0xa5, 0xc7, 0xdf, 0xe0, 0xf1} {
			for _, i := range []uint8{0, 1, 80, 158, 159} {
				for at := 0; at <= 175; at++ {
					idx++
					if !c.Env.Mine(idx) {
						continue
					}
					seed := uint16(int(page)*3 + int(i)*5 + at)
					cas := c16Case{Cart: 0x13, Page: page, Fills: []c16Fill{{page, seed}},
						Evs: []c16Ev{{At: at, K: "poke", Page: page, I: i, V: ^c16Pattern(seed, int(i))}}, Tail: 2}
					_, feats := c16Analyse(cas)
					for _, f := range feats {
						c.Class("poke:"+f, 1)
					}
					n++
					if n%200 == 1 {
						c.Sample("poke", cas)
					}
					if sig, err := c16Run(cas); err != nil {
						en.fail(sig, err, cas)
					}
				}
			}
		}
		c.Bulk("poke", n, n)
		c.Exhaustive("one source byte (index 0,1,80,158,159) complemented at every cycle 0..175, sources 88 A5 C7 DF E0 F1")
	})

	defer c16PollCampaign(c)
	c.Rapid("random", 12000, 300000, func(rt *rapid.T) {
		cas := c16GenCase(rt)
		class, feats := c16Analyse(cas)
		c.Case("random:"+class, vf.Hash(cas), true, func() interface{} { return cas })
		for _, f := range feats {
			c.Class("random:"+f, 1)
		}
		if sig, err := c16Run(cas); err != nil {
			if !c.Fail("random", sig, err.Error(), cas) {
				rt.Fatalf("sig=%s %v", sig, err)
			}
		}
	})
}

func c16GenCase(rt *rapid.T) c16Case {
	cart := rapid.SampledFrom([]uint8{0x03, 0x03, 0x13, 0x13, 0x00, 0x1b}).Draw(rt, "cart")
	pageGen := rapid.Custom(func(rt *rapid.T) uint8 {
		var p int
		switch rapid.IntRange(0, 7).Draw(rt, "region") {
		case 0:
			p = rapid.IntRange(0x00, 0x7f).Draw(rt, "page")
		case 1:
			p = rapid.IntRange(0x80, 0x9f).Draw(rt, "page")
		case 2:
			p = rapid.IntRange(0xa0, 0xbf).Draw(rt, "page")
		case 3:
			p = rapid.IntRange(0xc0, 0xdf).Draw(rt, "page")
		case 4, 5:
			p = rapid.IntRange(0xe0, 0xf1).Draw(rt, "page")
		case 6:
			p = int(rapid.SampledFrom([]uint8{0x00, 0x01, 0x3f, 0x40, 0x7f, 0x80, 0x9f, 0xa0, 0xbf, 0xc0, 0xdf, 0xe0, 0xf1}).Draw(rt, "page"))
		default:
			p = rapid.IntRange(0x00, 0xf1).Draw(rt, "page")
		}
		if !c16PageAllowed(cart, uint8(p)) {
			p = p - 0xa0 + 0xc0 // cartridge RAM is not a source on this cartridge type: take the WRAM page instead
		}
		return uint8(p)
	})
	cas := c16Case{Cart: cart, Page: pageGen.Draw(rt, "page"), Tail: rapid.IntRange(0, 12).Draw(rt, "tail")}
	type rawEv struct {
		gap  int
		kind int
		page uint8
		i    uint8
		v    uint8
		rel  int
	}
	evGen := rapid.Custom(func(rt *rapid.T) rawEv {
		return rawEv{
			gap:  rapid.SampledFrom([]int{0, 1, 2, 3, 5, 20, 80, 150, 159, 160, 161, 162, 163, 170}).Draw(rt, "gap"),
			kind: rapid.IntRange(0, 3).Draw(rt, "kind"),
			page: pageGen.Draw(rt, "evpage"),
			i:    uint8(rapid.SampledFrom([]int{0, 1, 2, 79, 80, 157, 158, 159, -1}).Draw(rt, "index")),
			v:    rapid.Byte().Draw(rt, "v"),
			rel:  rapid.IntRange(-6, 6).Draw(rt, "rel"),
		}
	})
	raws := rapid.SliceOfN(evGen, 0, 6).Draw(rt, "events")
	t, start := 0, 0
	cur := cas.Page
	pages := []uint8{cas.Page}
	for _, r := range raws {
		if r.kind == 0 {
			// restart after a gap
			t += r.gap
			if r.rel <= -4 {
				// related to the page in progress: the same page again, or its echo alias (same bytes, other register value)
				switch {
				case r.rel == -4:
					r.page = cur
				case cur >= 0xc0 && cur <= 0xd1:
					r.page = cur + 0x20
				case cur >= 0xe0 && cur <= 0xf1:
					r.page = cur - 0x20
				}
			}
			cas.Evs = append(cas.Evs, c16Ev{At: t, K: "dma", Page: r.page})
			start, cur = t, r.page
			pages = append(pages, r.page)
			continue
		}
		// modify a byte of the current source around (or well away from) its slot; never back in time
		i := int(r.i)
		if r.i == 0xff {
			i = int(r.v) % 160
		}
		at := start + 2 + i + r.rel
		if r.kind == 3 {
			at = start + r.gap
		}
		if at < t {
			at = t
		}
		t = at
		cas.Evs = append(cas.Evs, c16Ev{At: at, K: "poke", Page: cur, I: uint8(i), V: r.v})
	}
	seed := rapid.Uint16().Draw(rt, "seed")
	done := map[uint8]bool{}
	for k, p := range pages {
		if !done[p] {
			done[p] = true
			cas.Fills = append(cas.Fills, c16Fill{p, seed + uint16(k)*977})
		}
	}
	return cas
}

// ---------------------------------------------------------------------------
// A transfer started by a guest program on the whole machine, LCD on, while the
// CPU keeps polling OAM: the copy must still be exact.

type c16Poll struct {
	Page  uint8  `json:"page"`  // C0-DF: the source is work RAM
	Seed  uint16 `json:"seed"`  // source contents
	Nops  int    `json:"nops"`  // NOPs before the transfer is started: moves it across the LCD line
	Polls int    `json:"polls"` // LD A,(HL) executed right after the start (2 cycles each, at most 70: all inside the transfer)
	HL    uint16 `json:"hl"`    // polled address, FE00-FEFF
	LCD   bool   `json:"lcd"`
}

func c16RunPoll(c c16Poll) (sig string, err error) {
	defer vf.Recover(&sig, &err)
	if ((c.Page < 0xc0 || c.Page > 0xdf) && (c.Page < 0x80 || c.Page > 0x9f)) || c.Polls < 0 || c.Polls > 70 || c.Nops < 0 || c.Nops > 400 || c.HL < 0xfe00 || c.HL > 0xfeff {
		return "invalid-case", fmt.Errorf("case outside the domain")
	}
	rom := machine.MakeROM(0, 0, 0)
	code := []byte{0xc3, 0x50, 0x01}
	copy(rom[0x100:], code)
	prog := []byte{0x21, byte(c.HL), byte(c.HL >> 8)}
	for i := 0; i < c.Nops; i++ {
		prog = append(prog, 0x00)
	}
	prog = append(prog, 0x3e, c.Page, 0xe0, 0x46)
	for i := 0; i < c.Polls; i++ {
		prog = append(prog, 0x7e)
	}
	prog = append(prog, 0x18, 0xfe)
	copy(rom[0x150:], prog)
	m := machine.New(rom, nil, false)
	m.I.Disable()
	m.Mp.Write(0xffff, 0)
	m.Mp.Write(0xff40, 0x11) // the source is laid down with the LCD off (video RAM is then plain memory)
	var src [160]uint8
	for i := range src {
		src[i] = c16Pattern(c.Seed, i)
		m.Mp.Write(uint16(c.Page)<<8+uint16(i), src[i])
	}
	if c.LCD {
		m.Mp.Write(0xff40, 0x91)
	}
	spin := uint16(0x150 + len(prog) - 2)
	for i := 0; i < 4+3+c.Nops+5+2*c.Polls+200; i++ {
		m.Cycle()
	}
	if pc := m.CPU.VerifGet().PC; pc != spin && pc != spin+1 && pc != spin+2 {
		return "", nil // the CPU is not where the program ends (C01/C02's subject): nothing to judge
	}
	// look at OAM from outside mode 2, where a read has no side effect
	for i := 0; i < 200 && m.Mp.Read(0xff40)&0x80 != 0 && m.Mp.Read(0xff41)&3 == 2; i++ {
		m.Cycle()
	}
	bad, first := 0, -1
	for i := range src {
		if m.Mp.Read(0xfe00+uint16(i)) != src[i] {
			bad++
			if first < 0 {
				first = i
			}
		}
	}
	if bad > 0 {
		return "dma-copy-disturbed-by-cpu-polling", fmt.Errorf("transfer from %02x00 started by a guest program after %d NOPs (LCD on=%v) with %d reads of %04x during the transfer: %d OAM byte(s) differ from the source afterwards, first OAM[%d] = %02x, source %02x",
			c.Page, c.Nops, c.LCD, c.Polls, c.HL, bad, first, m.Mp.Read(0xfe00+uint16(first)), src[first])
	}
	return "", nil
}

func init() {
	vf.RegisterReplay("C16/poll", func(raw json.RawMessage) (string, error) {
		var c c16Poll
		if err := json.Unmarshal(raw, &c); err != nil {
			return "", err
		}
		return c16RunPoll(c)
	})
}

// TestC16 calls this after its own campaigns.
func c16PollCampaign(c *vf.Collector) {
	c.Rapid("cpu-polling", 3200, 100000, func(rt *rapid.T) {
		page := rapid.IntRange(0xc0, 0xdf).Draw(rt, "page")
		if rapid.IntRange(0, 2).Draw(rt, "from-video-ram") == 0 {
			page = page - 0xc0 + 0x80 // the picture unit is drawing from the very memory the transfer reads
		}
		cas := c16Poll{Page: uint8(page), Seed: rapid.Uint16().Draw(rt, "seed"), Nops: rapid.IntRange(0, 240).Draw(rt, "nops"),
			Polls: rapid.IntRange(0, 70).Draw(rt, "polls"), HL: uint16(rapid.IntRange(0xfe00, 0xfeff).Draw(rt, "hl")), LCD: rapid.IntRange(0, 4).Draw(rt, "lcd") != 0}
		class := "cpu-polling-lcd-off"
		if cas.LCD {
			class = "cpu-polling-lcd-on"
		}
		c.Case(class, vf.Hash(cas), cas.Polls > 0, func() interface{} { return cas })
		sig, err := c16RunPoll(cas)
		if err != nil && !c.Fail("poll", sig, err.Error(), cas) {
			rt.Fatalf("%v", err)
		}
	})
}
