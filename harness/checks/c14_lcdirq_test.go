package checks

import (
	"encoding/json"
	"fmt"
	"testing"

	"pgregory.net/rapid"

	"verifharness/machine"
	"verifharness/vf"
)

// C14 — VBlank and STAT interrupts are requested exactly at their conditions.
//
// Reference (property statement + Pan Docs "INT 40 / INT 48", "STAT modes"):
// derived from the C13 line/mode counter. After each machine cycle the new
// frame position decides which requests MUST have been raised in that cycle
// and which MAY (don't-care); everything else must not be raised.
//   VBlank (IF.0): position = start of line 144.
//   STAT (IF.1), single enabled source:
//     HBlank  0x08: entry to mode 0 (cycle 61 of a line 0-143)
//     VBlank  0x10: start of line 144
//     OAM     0x20: start of each line 0-143; line 144: don't care;
//                   the line started by the switch-on itself: don't care
//     LYC     0x40: start of the line whose number equals LYC; the line started
//                   by the switch-on itself: don't care
// Nothing while the LCD is off, nothing by the LCDC writes themselves (except
// the two don't-cares at switch-on).

type c14Op struct {
	K string `json:"k"`           // "run" | "off" | "on" | "ly" (a store to the read-only LY register, which must change nothing)
	N int    `json:"n,omitempty"` // run: machine cycles; ly: the value stored
}

// c14Case: the runner switches the LCD off, writes STAT = Src and LYC, clears
// IF, then interprets Ops (the first "on" starts the sequence).
type c14Case struct {
	Src uint8   `json:"src"` // 00, 08, 10, 20 or 40
	LYC uint8   `json:"lyc"`
	Ops []c14Op `json:"ops"`
}

func c14SrcName(src uint8) string {
	switch src {
	case 0x00:
		return "none"
	case 0x08:
		return "hblank"
	case 0x10:
		return "vblank"
	case 0x20:
		return "oam"
	case 0x40:
		return "lyc"
	}
	return "invalid"
}

// c14Expect: requests for the observation after the latest step of l.
func c14Expect(l *c13LCD, src, lyc uint8) (must, may uint8) {
	if !l.On || l.K == 0 {
		return 0, 0
	}
	pos := l.Pos()
	ly, t := pos/c13Line, pos%c13Line
	first := l.K == 1
	if ly == 144 && t == 0 {
		must |= 1
		if src == 0x10 {
			must |= 2
		}
	}
	if src == 0x08 && ly < 144 && t == 61 {
		must |= 2
	}
	if src == 0x20 && t == 0 {
		switch {
		case ly == 144 || (ly < 144 && first):
			may |= 2
		case ly < 144:
			must |= 2
		}
	}
	if src == 0x40 && t == 0 && ly == int(lyc) {
		// including line 0 of the first frame after switch-on when LYC = 0: while the LCD is off nothing is
		// compared, so the condition rises when line 0 starts (the DMG raises it too: mooneye stat_lyc_onoff).
		// c14Run waives it when the request already came with the LCDC write itself.
		must |= 2
	}
	return must, may
}

type c14Shape struct {
	MustVBlank, MustStat, MayStat int
	Offs, OffMidLine, Ons         int
	Line0Later                    int // line-0 starts of a frame after the first since switch-on
	Cycles                        int
}

func c14Analyse(cas c14Case) c14Shape {
	var s c14Shape
	var l c13LCD
	for _, op := range cas.Ops {
		switch op.K {
		case "run":
			s.Cycles += op.N
			if !l.On {
				continue
			}
			for i := 0; i < op.N; i++ {
				l.Tick()
				must, may := c14Expect(&l, cas.Src, cas.LYC)
				if must&1 != 0 {
					s.MustVBlank++
				}
				if must&2 != 0 {
					s.MustStat++
				}
				if may&2 != 0 {
					s.MayStat++
				}
				if l.K > 1 && l.Pos() == 0 {
					s.Line0Later++
				}
			}
		case "off":
			if l.On {
				s.Offs++
				if l.Pos()%c13Line != 0 {
					s.OffMidLine++
				}
				l.SwitchOff()
			}
		case "on":
			if !l.On {
				s.Ons++
				l.SwitchOn()
			}
		}
	}
	return s
}

var c14ROM = machine.MakeROM(0, 0, 0)

func c14Run(cas c14Case) (sig string, err error) {
	defer vf.Recover(&sig, &err)
	if c14SrcName(cas.Src) == "invalid" {
		return "invalid-case", fmt.Errorf("STAT source %02x is not a single source", cas.Src)
	}
	total := 0
	for _, op := range cas.Ops {
		if op.K != "run" && op.K != "off" && op.K != "on" && op.K != "ly" || op.N < 0 {
			return "invalid-case", fmt.Errorf("bad op %+v", op)
		}
		if op.K == "run" {
			total += op.N
		}
	}
	if total > 1000*c13Frame {
		return "invalid-case", fmt.Errorf("case too long")
	}
	m := machine.NewHW(c14ROM, nil, false)
	m.Mp.Write(0xff40, 0x11)
	m.Mp.Write(0xff41, cas.Src)
	m.Mp.Write(0xff45, cas.LYC)
	m.Mp.Write(0xff0f, 0)
	var ref c13LCD
	src := c14SrcName(cas.Src)
	cyc := 0
	raisedAtOn := false
	judge := func(must, may uint8, ctx string) (string, error) {
		got := m.Mp.Read(0xff0f) & 3
		m.Mp.Write(0xff0f, 0)
		if got&^(must|may) == 0 && must&^got == 0 {
			return "", nil
		}
		pos := ref.Pos()
		ly, t := pos/c13Line, pos%c13Line
		var s string
		switch {
		case got&1 != 0 && must&1 == 0 && !ref.On:
			s = "vblank-requested-while-lcd-off"
		case got&1 != 0 && must&1 == 0:
			s = "vblank-spurious"
		case got&1 == 0 && must&1 != 0:
			s = "vblank-missing"
		case got&2 != 0 && (must|may)&2 == 0 && !ref.On:
			s = "stat-requested-while-lcd-off-" + src
		case got&2 != 0 && (must|may)&2 == 0 && ctx != "run":
			s = "stat-requested-by-lcdc-write-" + src
		case got&2 != 0 && (must|may)&2 == 0:
			s = "stat-spurious-" + src + "-source"
		case src == "oam" && ly == 0:
			s = "oam-source-no-request-line0"
		default:
			s = src + "-source-no-request"
		}
		return s, fmt.Errorf("STAT source %s (STAT=%02x) LYC=%d, cycle %d of the case (%s; LCD on=%v, %d cycles since switch-on, reference line %d cycle %d): IF bits raised %02b, required %02b, also allowed %02b",
			src, cas.Src, cas.LYC, cyc, ctx, ref.On, ref.K, ly, t, got, must, may)
	}
	for i, op := range cas.Ops {
		switch op.K {
		case "run":
			for j := 0; j < op.N; j++ {
				m.HW()
				ref.Tick()
				cyc++
				must, may := c14Expect(&ref, cas.Src, cas.LYC)
				if ref.K == 1 && raisedAtOn {
					may |= must & 2
					must &^= 2
				}
				if s, e := judge(must, may, "run"); e != nil {
					return s, e
				}
			}
		case "off":
			m.Mp.Write(0xff40, 0x11)
			ref.WriteLCDC(0x11)
			if s, e := judge(0, 0, fmt.Sprintf("op %d: LCD switched off", i)); e != nil {
				return s, e
			}
		case "ly":
			m.Mp.Write(0xff44, uint8(op.N))
			if s, e := judge(0, 0, fmt.Sprintf("op %d: store of %02x to LY", i, uint8(op.N))); e != nil {
				return s, e
			}
		case "on":
			m.Mp.Write(0xff40, 0x91)
			var may uint8
			if ref.WriteLCDC(0x91) == "on" && (cas.Src == 0x20 || cas.Src == 0x40 && cas.LYC == 0) {
				may = 2 // OAM / coincidence at the instant of switch-on: not asserted
			}
			raisedAtOn = m.Mp.Read(0xff0f)&2 != 0
			if s, e := judge(0, may, fmt.Sprintf("op %d: LCD switched on", i)); e != nil {
				return s, e
			}
		}
	}
	return "", nil
}

func init() {
	vf.RegisterReplay("C14/lcdirq", func(raw json.RawMessage) (string, error) {
		var c c14Case
		if err := json.Unmarshal(raw, &c); err != nil {
			return "", err
		}
		return c14Run(c)
	})
}

// ---------------------------------------------------------------------------

var c14Sources = []uint8{0x00, 0x08, 0x10, 0x20, 0x40}

func c14LYCs() []uint8 {
	var l []uint8
	for i := 0; i <= 153; i++ {
		l = append(l, uint8(i))
	}
	return append(l, 154, 200, 255)
}

type c14Raw struct {
	Kind, Style, Line, T, Small int
}

var c14RawGen = rapid.Custom(func(rt *rapid.T) c14Raw {
	r := c14Raw{}
	r.Kind = rapid.IntRange(0, 6).Draw(rt, "kind") // 0-3 run, 4 off, 5 on, 6 store to LY
	r.Style = rapid.IntRange(0, 3).Draw(rt, "style")
	if rapid.IntRange(0, 3).Draw(rt, "linesel") == 0 {
		r.Line = []int{0, 1, 142, 143, 144, 145, 152, 153}[rapid.IntRange(0, 7).Draw(rt, "seam")]
	} else {
		r.Line = rapid.IntRange(0, 153).Draw(rt, "line")
	}
	if rapid.IntRange(0, 2).Draw(rt, "tsel") == 0 {
		r.T = []int{0, 1, 19, 20, 21, 60, 61, 62, 63, 64, 111, 112, 113}[rapid.IntRange(0, 12).Draw(rt, "edge")]
	} else {
		r.T = rapid.IntRange(0, 113).Draw(rt, "t")
	}
	r.Small = rapid.IntRange(0, 300).Draw(rt, "small")
	return r
})

// c14Resolve builds a 3-5 frame schedule from state-independent draws.
func c14Resolve(src, lyc uint8, raws []c14Raw) c14Case {
	cas := c14Case{Src: src, LYC: lyc}
	var l c13LCD
	total := 0
	run := func(n int) {
		if total+n > 5*c13Frame {
			n = 5*c13Frame - total
		}
		if n <= 0 {
			return
		}
		cas.Ops = append(cas.Ops, c14Op{K: "run", N: n})
		total += n
		if l.On {
			l.K += n
		}
	}
	cas.Ops = append(cas.Ops, c14Op{K: "on"})
	l.SwitchOn()
	for _, r := range raws {
		switch {
		case r.Kind <= 3:
			switch r.Style {
			case 0:
				run(r.Small)
			case 1:
				if n := l.c13StepsTo(r.Line, r.T); n > 0 {
					run(n)
				} else {
					run(r.Small)
				}
			case 2:
				run(c13Frame - 150 + r.Small)
			default:
				run(r.Line*c13Line + r.T)
			}
		case r.Kind == 4:
			cas.Ops = append(cas.Ops, c14Op{K: "off"})
			l.SwitchOff()
		case r.Kind == 6:
			cas.Ops = append(cas.Ops, c14Op{K: "ly", N: (r.Small*7 + r.T) & 0xff})
		default:
			cas.Ops = append(cas.Ops, c14Op{K: "on"})
			if !l.On {
				l.SwitchOn()
			}
		}
	}
	if !l.On {
		cas.Ops = append(cas.Ops, c14Op{K: "on"})
		l.SwitchOn()
	}
	if total < 3*c13Frame {
		run(3*c13Frame - total + 130)
	} else {
		run(300)
	}
	return cas
}

func c14LYCClass(lyc uint8) string {
	switch {
	case lyc == 0:
		return "lyc-0"
	case lyc < 144:
		return "lyc-1-143"
	case lyc <= 153:
		return "lyc-144-153"
	}
	return "lyc-out-of-range"
}

func TestC14(t *testing.T) {
	c := vf.New(t, "C14", "enumeration: each single STAT source (none, HBlank, VBlank, OAM, LYC) x LYC in 0..153, 154, 200, 255 x 3 frames (thorough: 5) from switch-on; "+
		"rapid: source x LYC x off/on schedules of 3-5 frames switching at arbitrary cycles (as C13). IF bits 0-1 are read and cleared after every machine cycle and after every LCDC write and compared with the "+
		"requests derived from the reference line/mode counter (required / don't-care / forbidden). Non-trivial: the reference requires >= 1 VBlank request and, for a source other than 'none' with a reachable condition, >= 1 STAT request in the case. "+
		"Distinct = (source, LYC, operation list).")
	defer c.Flush()
	c.RunReplays()

	// long uninterrupted runs: every request of 300 frames for each source (wrapping frame counters must not
	// shift or drop any)
	c.Sub("long-run", func(t *testing.T) {
		for i, src := range c14Sources {
			if !c.Env.Mine(i) {
				continue
			}
			cas := c14Case{Src: src, LYC: uint8(37 * i), Ops: []c14Op{{K: "on"}, {K: "run", N: 300*c13Frame + 200}}}
			sig, err := c14Run(cas)
			c.Sample("long-run", cas)
			c.Bulk("long-run", 1, 1)
			if err != nil {
				if known, first := c.FailFirst("lcdirq", sig, err.Error(), cas); !known && first {
					t.Errorf("%v", err)
				}
			}
		}
	})

	c.Sub("sources-x-lyc", func(t *testing.T) {
		lycs := c14LYCs()
		frames := c.Env.Pick(3, 5)
		var n, nt int64
		bad := 0
		idx := 0
		for _, src := range c14Sources {
			for _, lyc := range lycs {
				idx++
				if !c.Env.Mine(idx) {
					continue
				}
				cas := c14Case{Src: src, LYC: lyc, Ops: []c14Op{{K: "on"}, {K: "run", N: frames*c13Frame + 200}}}
				n++
				nt++ // every case contains complete frames, hence required VBlank requests
				c.Class("enum-src-"+c14SrcName(src), 1)
				if idx%53 == 0 {
					c.Sample("enum", cas)
				}
				sig, err := c14Run(cas)
				if err != nil && !c.Fail("lcdirq", sig, err.Error(), cas) {
					bad++
					if bad == 1 {
						t.Errorf("%v", err)
					}
					if bad > 20 {
						return
					}
				}
			}
		}
		c.Bulk("enum", n, nt)
		c.Exhaustive(fmt.Sprintf("5 STAT source settings x %d LYC values x %d frames from switch-on (partitioned across shards)", len(lycs), frames))
	})

	c.Rapid("schedules", 4000, 160000, func(rt *rapid.T) {
		src := c14Sources[rapid.IntRange(0, 4).Draw(rt, "src")]
		var lyc uint8
		if rapid.IntRange(0, 3).Draw(rt, "lycsel") == 0 {
			lyc = []uint8{0, 1, 143, 144, 153, 154, 200, 255}[rapid.IntRange(0, 7).Draw(rt, "lycedge")]
		} else {
			lyc = uint8(rapid.IntRange(0, 159).Draw(rt, "lyc"))
		}
		raws := rapid.SliceOfN(c14RawGen, 0, 10).Draw(rt, "ops")
		cas := c14Resolve(src, lyc, raws)
		sh := c14Analyse(cas)
		nt := sh.MustVBlank > 0 && (src == 0 || sh.MustStat > 0 || src == 0x40 && lyc > 153)
		c.Case("schedule-src-"+c14SrcName(src), vf.Hash(cas), nt, func() interface{} { return cas })
		c.Class("schedule-"+c14LYCClass(lyc), 1)
		if sh.Offs > 0 {
			c.Class("schedule-with-off-on", 1)
		}
		if sh.OffMidLine > 0 {
			c.Class("schedule-with-off-mid-line", 1)
		}
		if sh.Line0Later > 0 {
			c.Class("schedule-reaching-line0-of-a-later-frame", 1)
		}
		if sh.MayStat > 0 {
			c.Class("schedule-with-dont-care-request", 1)
		}
		sig, err := c14Run(cas)
		if err != nil && !c.Fail("lcdirq", sig, err.Error(), cas) {
			rt.Fatalf("%v", err)
		}
	})
}
