package checks

import (
	"encoding/json"
	"fmt"
	"testing"

	"github.com/scottyw/tetromino/gameboy/timer"
	"pgregory.net/rapid"

	"verifharness/machine"
	"verifharness/vf"
)

// C12 — the timer. Reference model from Pan Docs ("Timer and divider
// registers", "Timer obscure behaviour"): 16-bit counter +4 per machine
// cycle, DIV = high byte, TIMA counts falling edges of (TAC.enable AND
// selected counter bit), overflow -> TIMA reads 00 for one cycle -> reload
// from TMA; a TIMA write in the zero cycle cancels the reload, in the reload
// cycle TIMA writes are ignored and TMA writes go through to TIMA.
//
// A history is a sequence of machine cycles, each with at most one register
// write before its tick (a CPU performs at most one access per machine
// cycle). Where the statement and the documentation leave the outcome open
// the model branches and the implementation may follow any branch
// (candidate-state set): (a) a TAC write whose falling edge is undone within
// the same cycle, or that raises and drops the signal within the cycle
// ("hidden edge"); (b) an increment coinciding with the tick that reloads
// TIMA; (c) an increment in the cycle in which TIMA was written; (d) whether
// a cancelled overflow still requests its interrupt, and whether the request
// is made at the overflow tick or at the reload tick.

type c12Op struct {
	Kind string `json:"k"` // "" (just a tick), "div", "tima", "tma", "tac"
	V    uint8  `json:"v,omitempty"`
}

type c12Case struct {
	Counter uint16  `json:"counter"`
	TAC     uint8   `json:"tac"`
	TIMA    uint8   `json:"tima"`
	TMA     uint8   `json:"tma"`
	Warm    bool    `json:"warm"` // the timer has overflowed once before the history starts
	ViaHW   bool    `json:"via_hw"`
	Ops     []c12Op `json:"ops"` // one machine cycle each: optional write, then the tick
}

type c12State struct {
	counter        uint16
	tac, tima, tma uint8
	cur            bool  // level the edge detector last saw (end of previous cycle)
	st             uint8 // 0 idle, 1 zero cycle, 2 reload cycle
	timaW, tmaW    bool
	lo, hi         int // bounds on the number of interrupt requests made so far
}

var c12Bits = []uint16{1 << 9, 1 << 3, 1 << 5, 1 << 7}

func (s *c12State) signal() bool { return s.tac&4 != 0 && s.counter&c12Bits[s.tac&3] != 0 }

// c12Tick returns the candidate successor states of one end-of-cycle tick;
// mid is the signal level right after this cycle's write (== cur when the write could not change it).
func c12Tick(s c12State, mid bool) []c12State {
	s.counter += 4
	assigned := false
	switch s.st {
	case 1:
		if s.timaW {
			s.st = 0 // cancelled: hi already counts it, lo never will
		} else {
			s.tima = s.tma
			s.st = 2
			s.lo++
			assigned = true
		}
	case 2:
		if s.tmaW {
			s.tima = s.tma
			assigned = true
		}
		s.st = 0
	}
	written := s.timaW
	s.timaW, s.tmaW = false, false
	end := s.signal()
	sampled := 0
	if s.cur && !end {
		sampled = 1
	}
	hw := 0
	if s.cur && !mid {
		hw++
	}
	if mid && !end {
		hw++
	}
	s.cur = end
	counts := []int{sampled}
	if hw != sampled {
		counts = append(counts, hw)
	}
	if (assigned || written) && sampled+hw > 0 {
		// (b), (c): the increment may or may not survive the assignment made in the same cycle
		counts = append(counts, 0)
	}
	var out []c12State
	for _, n := range counts {
		t := s
		for i := 0; i < n; i++ {
			t.tima++
			if t.tima == 0 {
				t.st = 1
				t.hi++
			}
		}
		dup := false
		for _, o := range out {
			if o == t {
				dup = true
			}
		}
		if !dup {
			out = append(out, t)
		}
	}
	return out
}

type c12Impl interface {
	write(k string, v uint8)
	tick() bool
	regs() (div, tima, tma, tac uint8)
}

type c12Bare struct{ t *timer.Timer }

func (b c12Bare) write(k string, v uint8) {
	switch k {
	case "div":
		b.t.WriteDIV(v)
	case "tima":
		b.t.WriteTIMA(v)
	case "tma":
		b.t.WriteTMA(v)
	case "tac":
		b.t.WriteTAC(v)
	}
}
func (b c12Bare) tick() bool { return b.t.EndMachineCycle() }
func (b c12Bare) regs() (uint8, uint8, uint8, uint8) {
	return b.t.ReadDIV(), b.t.ReadTIMA(), b.t.ReadTMA(), b.t.ReadTAC()
}

type c12HW struct{ m *machine.M }

func (h c12HW) write(k string, v uint8) {
	a := map[string]uint16{"div": 0xff04, "tima": 0xff05, "tma": 0xff06, "tac": 0xff07}[k]
	h.m.Mp.Write(a, v)
}
func (h c12HW) tick() bool {
	h.m.Mp.Write(0xff0f, h.m.Mp.Read(0xff0f)&^0x04)
	h.m.HW()
	return h.m.Mp.Read(0xff0f)&0x04 != 0
}
func (h c12HW) regs() (uint8, uint8, uint8, uint8) {
	return h.m.Mp.Read(0xff04), h.m.Mp.Read(0xff05), h.m.Mp.Read(0xff06), h.m.Mp.Read(0xff07)
}

var c12ROM = machine.MakeROM(0, 0, 0)

// c12Start builds implementation and model in the same start state.
func c12Start(c *c12Case) (c12Impl, *timer.Timer, c12State, error) {
	var t *timer.Timer
	var impl c12Impl
	if c.ViaHW {
		m := machine.NewHW(c12ROM, nil, false)
		m.Mp.Write(0xff40, 0)
		t = m.T
		impl = c12HW{m}
	} else {
		t = timer.New()
		impl = c12Bare{t}
	}
	if c.Warm {
		// one complete, undisturbed overflow/reload, well before the history starts
		t.VerifSetCounter(0x0100)
		t.WriteTMA(0x00)
		t.WriteTAC(0x05)
		t.WriteTIMA(0xff)
		for i := 0; i < 16; i++ {
			t.EndMachineCycle()
		}
		t.WriteTAC(0x00)
		for i := 0; i < 4; i++ {
			t.EndMachineCycle()
		}
	}
	// bring the timer to the start state with the signal low, then settle one cycle
	t.WriteTAC(0x00)
	t.EndMachineCycle()
	t.VerifSetCounter(c.Counter - 4)
	t.WriteTMA(c.TMA)
	t.WriteTIMA(c.TIMA)
	t.WriteTAC(c.TAC)
	t.EndMachineCycle() // counter == c.Counter now; the detector has sampled the start level
	s := c12State{counter: c.Counter, tac: c.TAC, tima: c.TIMA, tma: c.TMA}
	s.cur = s.signal()
	if t.ReadTIMA() != c.TIMA || t.VerifCounter() != c.Counter {
		// the set-up itself crossed an edge (counter-4 had the bit set): start one increment later
		s.tima = t.ReadTIMA()
		if t.VerifCounter() != c.Counter {
			return nil, nil, s, fmt.Errorf("harness: could not establish start counter %04x", c.Counter)
		}
	}
	return impl, t, s, nil
}

func c12Run(c c12Case) (sig string, err error) {
	defer vf.Recover(&sig, &err)
	impl, _, s0, e := c12Start(&c)
	if e != nil {
		return "harness", e
	}
	if s0.tima == 0 && c.TIMA != 0 {
		return "", nil // the set-up overflowed: not a start state we can describe
	}
	states := []c12State{s0}
	irqs := 0
	hist := ""
	for i, op := range c.Ops {
		mids := make([]bool, len(states))
		for j := range states {
			s := &states[j]
			switch op.Kind {
			case "div":
				s.counter = 0
			case "tac":
				s.tac = op.V
			case "tma":
				s.tma = op.V
				s.tmaW = true
			case "tima":
				if s.st != 2 {
					s.tima = op.V
					s.timaW = true
				}
			}
			mids[j] = s.signal()
		}
		if op.Kind != "" {
			impl.write(op.Kind, op.V)
			hist += fmt.Sprintf("%s=%02x ", op.Kind, op.V)
			div, tima, tma, tac := impl.regs()
			var keep []c12State
			for _, s := range states {
				ok := div == uint8(s.counter>>8) && tma == s.tma && tac == s.tac|0xf8
				if op.Kind == "tima" && tima != s.tima {
					ok = false
				}
				if ok {
					keep = append(keep, s)
				}
			}
			if len(keep) == 0 {
				s := states[0]
				return c12Sig(op, s, "write"), fmt.Errorf("cycle %d after write %s=%02x (history: %s): DIV=%02x TIMA=%02x TMA=%02x TAC=%02x; model (first of %d candidates) DIV=%02x TIMA=%02x TMA=%02x TAC=%02x phase=%d", i, op.Kind, op.V, hist, div, tima, tma, tac, len(states), uint8(s.counter>>8), s.tima, s.tma, s.tac|0xf8, s.st)
			}
			if len(keep) != len(states) {
				// mids must follow the filter
				var m2 []bool
				for j, s := range states {
					for _, k := range keep {
						if k == s {
							m2 = append(m2, mids[j])
							break
						}
					}
				}
				mids = m2
			}
			states = keep
		}
		if impl.tick() {
			irqs++
		}
		hist += "T "
		div, tima, tma, tac := impl.regs()
		var next []c12State
		var all []c12State
		for j, s := range states {
			for _, n := range c12Tick(s, mids[j]) {
				all = append(all, n)
				if div == uint8(n.counter>>8) && tima == n.tima && tma == n.tma && tac == n.tac|0xf8 && irqs >= n.lo && irqs <= n.hi {
					dup := false
					for _, o := range next {
						if o == n {
							dup = true
						}
					}
					if !dup {
						next = append(next, n)
					}
				}
			}
		}
		if len(next) == 0 {
			before := states[0]
			n := all[0]
			return c12Sig(op, before, "tick"), fmt.Errorf("cycle %d (history: %s): after the tick DIV=%02x TIMA=%02x TMA=%02x TAC=%02x interrupts=%d; model (first of %d candidates) DIV=%02x TIMA=%02x TMA=%02x TAC=%02x interrupts %d..%d; before the tick: counter=%04x TIMA=%02x phase=%d (1=zero cycle, 2=reload cycle) timaWritten=%v tmaWritten=%v", i, hist, div, tima, tma, tac, irqs, len(all), uint8(n.counter>>8), n.tima, n.tma, n.tac|0xf8, n.lo, n.hi, before.counter, before.tima, before.st, before.timaW, before.tmaW)
		}
		if len(next) > 32 {
			return "", nil // unspecified corner piled up: stop comparing
		}
		states = next
	}
	return "", nil
}

// c12Sig classifies a disagreement by the model phase it happened in.
func c12Sig(op c12Op, before c12State, where string) string {
	phase := []string{"idle", "zero-cycle", "reload-cycle"}[before.st]
	k := op.Kind
	if k == "" {
		k = "none"
	}
	return fmt.Sprintf("timer-%s-write-%s-%s", phase, k, where)
}

func init() {
	vf.RegisterReplay("C12/timer", func(raw json.RawMessage) (string, error) {
		var c c12Case
		if err := json.Unmarshal(raw, &c); err != nil {
			return "", err
		}
		return c12Run(c)
	})
}

func c12Alphabet() []c12Op {
	ops := []c12Op{{}, {Kind: "div"}}
	for _, v := range []uint8{0x00, 0x01, 0xfe, 0xff, 0x7f} {
		ops = append(ops, c12Op{Kind: "tima", V: v})
	}
	for _, v := range []uint8{0x00, 0x01, 0xfe, 0xff, 0x7f} {
		ops = append(ops, c12Op{Kind: "tma", V: v})
	}
	for _, v := range []uint8{0, 4, 5, 6, 7} {
		ops = append(ops, c12Op{Kind: "tac", V: v})
	}
	return ops
}

func c12Interesting(c *c12Case) (nontrivial bool, classes []string) {
	s := c12State{counter: c.Counter, tac: c.TAC, tima: c.TIMA, tma: c.TMA}
	s.cur = s.signal()
	sawOverflow, sawZeroW, sawReloadW, sawDivZero, sawEdgeByWrite := false, false, false, false, false
	for _, op := range c.Ops {
		switch op.Kind {
		case "div":
			if s.st == 1 || s.st == 2 {
				sawDivZero = true
			}
			if s.signal() {
				sawEdgeByWrite = true
			}
			s.counter = 0
		case "tac":
			old := s.signal()
			s.tac = op.V
			if old && !s.signal() {
				sawEdgeByWrite = true
			}
		case "tma":
			if s.st == 2 {
				sawReloadW = true
			}
			s.tma, s.tmaW = op.V, true
		case "tima":
			if s.st == 1 {
				sawZeroW = true
			}
			if s.st == 2 {
				sawReloadW = true
			} else {
				s.tima, s.timaW = op.V, true
			}
		}
		n := c12Tick(s, s.signal())
		s = n[0]
		if s.st == 1 {
			sawOverflow = true
		}
	}
	if sawOverflow {
		classes = append(classes, "overflow")
	}
	if sawZeroW {
		classes = append(classes, "tima-write-in-zero-cycle")
	}
	if sawReloadW {
		classes = append(classes, "write-in-reload-cycle")
	}
	if sawDivZero {
		classes = append(classes, "div-write-during-overflow-handling")
	}
	if sawEdgeByWrite {
		classes = append(classes, "edge-caused-by-write")
	}
	return len(classes) > 0, classes
}

func TestC12(t *testing.T) {
	c := vf.New(t, "C12", "histories = sequences of machine cycles, each with at most one write (DIV, TIMA v, TMA v, TAC t) before its tick. (a) bounded-exhaustive: every sequence of L cycles (quick 4, thorough 5) over 17 per-cycle symbols (no write, DIV, TIMA/TMA in {00,01,FE,FF,7F}, TAC in {0,4,5,6,7}) "+
		"from start states covering counter phases within +-2 cycles of each selected bit's falling edge and of counter wrap x TIMA in {FD,FE,FF} x TAC {4,5,6,7} x never-overflowed/overflowed-before, on a bare Timer; "+
		"(b) rapid long schedules (all 256 values, 20-400 cycles) on a bare Timer and through Mapper + machine.HW() observing IF bit 2. Compared after every write and every tick with a candidate-set reference (DIV, TIMA, TMA, TAC|F8, interrupt count). "+
		"Non-trivial: the history contains an overflow, a write in the zero or reload cycle, a DIV write during overflow handling, or an edge caused by a write; distinct = (start state, sequence).")
	defer c.Flush()
	c.RunReplays()

	alpha := c12Alphabet()
	c.Sub("bounded-exhaustive", func(t *testing.T) {
		L := c.Env.Pick(4, 5)
		// start states
		var counters []uint16
		for _, bit := range []uint{3, 5, 7, 9} {
			edge := uint16(1)<<(bit+1) - 4 // last counter value with the bit set before it falls on +4
			for d := c.Env.Pick(-2, -3); d <= 1; d++ {
				counters = append(counters, uint16(int(edge)+4*d))
			}
		}
		for d := c.Env.Pick(-2, -3); d <= 1; d++ {
			counters = append(counters, uint16(0x10000-4+4*d))
		}
		type start struct {
			counter   uint16
			tac, tima uint8
			warm      bool
		}
		var starts []start
		for _, cn := range counters {
			for _, tac := range []uint8{4, 5, 6, 7} {
				for ti, tima := range []uint8{0xff, 0xfe, 0xfd} {
					if ti == 2 && !c.Env.Thorough() {
						continue
					}
					for _, w := range []bool{false, true} {
						starts = append(starts, start{cn, tac, tima, w})
					}
				}
			}
		}
		total := 1
		for i := 0; i < L; i++ {
			total *= len(alpha)
		}
		var n, nt int64
		classes := map[string]int64{}
		for si, st := range starts {
			if !c.Env.Mine(si) {
				continue
			}
			for seq := 0; seq < total; seq++ {
				cas := c12Case{Counter: st.counter, TAC: st.tac, TIMA: st.tima, TMA: 0x80, Warm: st.warm}
				x := seq
				for i := 0; i < L; i++ {
					cas.Ops = append(cas.Ops, alpha[x%len(alpha)])
					x /= len(alpha)
				}
				n++
				if ok, cl := c12Interesting(&cas); ok {
					for _, k := range cl {
						classes[k]++
					}
					nt++
				}
				if n%200000 == 1 {
					c.Sample("bounded-exhaustive", cas)
				}
				sig, err := c12Run(cas)
				if err != nil {
					if known, first := c.FailFirst("timer", sig, err.Error(), cas); !known && first {
						t.Errorf("%v", err)
					}
				}
			}
		}
		c.Bulk("bounded-exhaustive", n, nt)
		for k, v := range classes {
			c.Class("exhaustive~"+k, v)
		}
		c.Exhaustive(fmt.Sprintf("all %d^%d per-cycle write sequences from %d start states (counter phases within -2/-3..+1 cycles of each selected bit's falling edge and of counter wrap x TAC 4-7 x TIMA FE/FF (thorough: FD too) x warm/cold)", len(alpha), L, len(starts)))
	})

	opGen := rapid.Custom(func(rt *rapid.T) c12Op {
		switch rapid.IntRange(0, 11).Draw(rt, "kind") {
		case 0, 1, 2, 3, 4, 5:
			return c12Op{}
		case 6:
			return c12Op{Kind: "div", V: rapid.Byte().Draw(rt, "v")}
		case 7, 8:
			return c12Op{Kind: "tima", V: rapid.SampledFrom([]uint8{0, 1, 0xfe, 0xff, 0x80, 0x7f}).Draw(rt, "v") ^ uint8(rapid.IntRange(0, 1).Draw(rt, "any")*rapid.IntRange(0, 255).Draw(rt, "x"))}
		case 9:
			return c12Op{Kind: "tma", V: rapid.Byte().Draw(rt, "v")}
		default:
			return c12Op{Kind: "tac", V: rapid.Byte().Draw(rt, "v") & uint8(rapid.SampledFrom([]int{0x07, 0xff}).Draw(rt, "mask"))}
		}
	})
	for _, via := range []bool{false, true} {
		via := via
		name := "schedules-bare"
		nq, nth := 60000, 2000000
		if via {
			name, nq, nth = "schedules-hw", 8000, 200000
		}
		c.Rapid(name, nq, nth, func(rt *rapid.T) {
			cas := c12Case{ViaHW: via, Warm: rapid.Bool().Draw(rt, "warm"), TAC: uint8(rapid.IntRange(4, 7).Draw(rt, "tac")),
				TIMA: uint8(rapid.IntRange(0xf0, 0xff).Draw(rt, "tima")), TMA: rapid.Byte().Draw(rt, "tma")}
			switch rapid.IntRange(0, 2).Draw(rt, "counter-kind") {
			case 0:
				cas.Counter = uint16(rapid.IntRange(0, 0x3fff).Draw(rt, "counter")) * 4
			case 1:
				cas.Counter = uint16(0x10000 - 4*rapid.IntRange(1, 8).Draw(rt, "wrap"))
			default:
				bit := rapid.SampledFrom([]uint{3, 5, 7, 9}).Draw(rt, "bit")
				cas.Counter = uint16(int(uint16(1)<<(bit+1)) - 4*rapid.IntRange(1, 6).Draw(rt, "before-edge"))
			}
			cas.Ops = rapid.SliceOfN(opGen, 20, 400).Draw(rt, "ops")
			nt, cl := c12Interesting(&cas)
			class := name
			for _, k := range cl {
				c.Class(name+"~"+k, 1)
			}
			c.Case(class, vf.Hash(cas), nt, func() interface{} { return cas })
			sig, err := c12Run(cas)
			if err != nil {
				if !c.Fail("timer", sig, err.Error(), cas) {
					rt.Fatalf("%v", err)
				}
			}
		})
	}
}
