package checks

import (
	"bytes"
	"encoding/json"
	"fmt"
	"os"
	"testing"

	"pgregory.net/rapid"

	"verifharness/machine"
	"verifharness/refcpu"
	"verifharness/vf"
)

// C23 — every byte written to SB is delivered to the serial writer exactly
// once and in order; nothing else is delivered; SB and SC read FF; with no
// writer SB writes have no effect.

type c23Op struct {
	Kind string `json:"k"` // "w" write, "r" read, "t" ticks
	A    uint16 `json:"a,omitempty"`
	V    uint8  `json:"v,omitempty"`
	N    int    `json:"n,omitempty"`
}

type c23Case struct {
	Ops []c23Op `json:"ops"`
	Nil bool    `json:"nil_writer"`
}

var c23ROM = machine.MakeROM(0, 0, 0)

// I/O addresses other than SB/SC that the direct sequences also write: chosen to
// be harmless for a machine without a CPU (no cartridge RAM). FF46 is among them:
// a DMA transfer in flight must not keep a byte written to SB from being delivered.
var c23OtherIO = []uint16{0xff46, 0xff46, 0xff00, 0xff03, 0xff04, 0xff05, 0xff06, 0xff07, 0xff0f, 0xff42, 0xff43, 0xff45, 0xff47, 0xff4a, 0xff4b, 0xff80, 0xfffe, 0xffff, 0xc000, 0xdfff, 0xff7f, 0xff10, 0xff26}

func c23Digest(m *machine.M) string {
	var b bytes.Buffer
	for a := 0xff00; a <= 0xffff; a++ {
		b.WriteByte(m.Mp.Read(uint16(a)))
	}
	for a := 0xc000; a < 0xc010; a++ {
		b.WriteByte(m.Mp.Read(uint16(a)))
	}
	return fmt.Sprintf("%x", b.Bytes())
}

func c23RunDirect(c c23Case) (sig string, err error) {
	defer vf.Recover(&sig, &err)
	var w bytes.Buffer
	var m *machine.M
	if c.Nil {
		m = machine.NewHW(c23ROM, nil, false)
	} else {
		m = machine.NewHW(c23ROM, &w, false)
	}
	var want []byte
	exec := func(m *machine.M, skipSB bool) error {
		for i, op := range c.Ops {
			switch op.Kind {
			case "w":
				if op.A == 0xff01 {
					if skipSB {
						continue
					}
					want = append(want, op.V)
				}
				m.Mp.Write(op.A, op.V)
			case "r":
				if got := m.Mp.Read(op.A); got != 0xff {
					return fmt.Errorf("op %d: read of %04x returned %02x, want ff", i, op.A, got)
				}
			case "t":
				for k := 0; k < op.N; k++ {
					m.HW()
				}
			}
			if !c.Nil && !skipSB && !bytes.Equal(w.Bytes(), want) {
				return fmt.Errorf("op %d (%+v): serial writer holds % x, want % x", i, op, w.Bytes(), want)
			}
		}
		return nil
	}
	if e := exec(m, false); e != nil {
		if bytes.HasPrefix([]byte(e.Error()), []byte("op")) && !c.Nil && len(w.Bytes()) != len(want) {
			return "serial-transcript", e
		}
		return "serial-readback-or-transcript", e
	}
	if c.Nil {
		// metamorphic: the same history without the SB writes must leave the same observable state
		m2 := machine.NewHW(c23ROM, nil, false)
		want = nil
		if e := exec(m2, true); e != nil {
			return "serial-readback-or-transcript", e
		}
		if c23Digest(m) != c23Digest(m2) {
			return "serial-nil-writer-effect", fmt.Errorf("with no serial writer the SB writes changed the machine state")
		}
	}
	return "", nil
}

// ---- programs in lock-step ----

type c23Prog struct {
	LS lsCase `json:"program"`
}

var c23Rig *cpuRig
var c23Buf bytes.Buffer

func c23RunProg(c c23Prog) (stores int, st lsStats, sig string, err error) {
	defer vf.Recover(&sig, &err)
	if c23Rig == nil {
		c23Rig = c23NewRig()
	}
	c23Buf.Reset()
	var want []byte
	var mism error
	pol := lsPolicy{allowSerial: true, onInstr: func(exp *refcpu.Result) {
		for _, a := range exp.Acc {
			if a.Write && a.Addr == 0xff01 {
				want = append(want, a.Val)
			}
		}
		if mism == nil && !bytes.Equal(c23Buf.Bytes(), want) {
			mism = fmt.Errorf("after an instruction storing to FF01: writer holds % x, the reference's stores are % x", c23Buf.Bytes(), want)
		}
	}}
	st, sig, err = c23Rig.lockstep(&c.LS, pol)
	if err != nil {
		return len(want), st, sig, err
	}
	if mism != nil {
		return len(want), st, "serial-transcript", mism
	}
	if !bytes.Equal(c23Buf.Bytes(), want) {
		return len(want), st, "serial-transcript", fmt.Errorf("writer holds % x, the reference's stores to FF01 are % x", c23Buf.Bytes(), want)
	}
	return len(want), st, "", nil
}

func c23NewRig() *cpuRig {
	m := machine.New(lsROM(), &c23Buf, false)
	for i := 0; i < 300 && m.Mp.Read(0xff41)&3 != 0; i++ {
		m.HW()
	}
	m.Mp.Write(0xff40, 0)
	m.I.Disable()
	m.Mp.Write(0xff0f, 0)
	m.Mp.Write(0xffff, 0)
	m.Mp.Write(cpuScratchPC, 0)
	return &cpuRig{m: m}
}

// c23GenStore emits one of the store forms aimed at SB or SC (or a read of them).
func c23GenStore(rt *rapid.T) []byte {
	target := byte(rapid.SampledFrom([]int{1, 1, 1, 2}).Draw(rt, "reg")) // FF01 three times as often as FF02
	v := rapid.Byte().Draw(rt, "byte")
	switch rapid.IntRange(0, 10).Draw(rt, "form") {
	case 0:
		return []byte{0x3e, v, 0xe0, target} // LD A,v; LDH (n),A
	case 1:
		return []byte{0x3e, v, 0x0e, target, 0xe2} // LD C,n; LD (C),A
	case 2:
		return []byte{0x21, target, 0xff, 0x36, v} // LD HL,FF0n; LD (HL),v
	case 3:
		return []byte{0x3e, v, 0xea, target, 0xff} // LD (nn),A
	case 4:
		return []byte{0x21, target, 0xff, 0x3e, v, 0x22} // LD (HL+),A
	case 5:
		return []byte{0x01, target, 0xff, 0x3e, v, 0x02} // LD (BC),A
	case 6:
		return []byte{0x11, target, 0xff, 0x3e, v, 0x12} // LD (DE),A
	case 7:
		return []byte{0x21, target, 0xff, 0x06, v, 0x70} // LD (HL),B
	case 8:
		return []byte{0x21, target, 0xff, 0x34} // INC (HL): reads FF, stores 00
	case 9:
		return []byte{0x31, 0x03, 0xff, 0x01, v, ^v, 0xc5, 0x31, 0xd0, 0xdf} // LD SP,FF03; LD BC,..; PUSH BC (stores FF02, FF01); LD SP,DFD0
	default:
		return []byte{0xf0, target, 0x21, target, 0xff, 0x7e} // reads
	}
}

func init() {
	vf.RegisterReplay("C23/direct", func(raw json.RawMessage) (string, error) {
		var c c23Case
		if err := json.Unmarshal(raw, &c); err != nil {
			return "", err
		}
		return c23RunDirect(c)
	})
	vf.RegisterReplay("C23/program", func(raw json.RawMessage) (string, error) {
		var c c23Prog
		if err := json.Unmarshal(raw, &c); err != nil {
			return "", err
		}
		_, _, sig, err := c23RunProg(c)
		return sig, err
	})
}

// c23RunROM runs a ROM on the full machine; at every instruction boundary the
// reference decodes the next instruction from the registers and predicts its
// stores; the stores to FF01 of instructions that actually executed (not
// replaced by an interrupt dispatch) must be the writer's transcript.
func c23RunROM(rel string, frames int) (stores int, sig string, err error) {
	defer vf.Recover(&sig, &err)
	rom, e := os.ReadFile(romDir + rel)
	if e != nil {
		return 0, "", nil
	}
	var w bytes.Buffer
	m := machine.New(rom, &w, false)
	var want []byte
	var pending []byte // stores predicted for the instruction in flight
	var pre refcpu.Regs
	inFlight := false
	for cyc := 0; cyc < frames*17556; cyc++ {
		if m.CPU.VerifAtBoundary() {
			now := cpuFromHook(m.CPU.VerifGet())
			if inFlight {
				dispatched := now.PC >= 0x40 && now.PC <= 0x60 && now.PC%8 == 0 && now.SP == pre.SP-2 && m.Mp.Read(now.SP) == uint8(pre.PC) && m.Mp.Read(now.SP+1) == uint8(pre.PC>>8)
				if !dispatched || len(pending) == 0 {
					if !dispatched {
						want = append(want, pending...)
					}
				}
				if !bytes.Equal(w.Bytes(), want) {
					return len(want), "serial-transcript", fmt.Errorf("%s: after the instruction at %04x the writer holds %d bytes (...% x), the stores to FF01 predicted from the executed instructions are %d (...% x)", rel, pre.PC, w.Len(), c23Tail(w.Bytes()), len(want), c23Tail(want))
				}
				inFlight = false
			}
			if !m.CPU.VerifHalted() && !m.CPU.VerifStopped() {
				op := m.Mp.Read(now.PC)
				if refcpu.IsUndefined(op) {
					break
				}
				pre = now
				pending = pending[:0]
				// only store forms can hit FF01; decode cheaply first
				res := refcpu.Step(now, func(a uint16) uint8 {
					if a >= 0xa000 && a < 0xc000 || a >= 0xfe00 && a < 0xff00 {
						return 0xff
					}
					return m.Mp.Read(a)
				}, m.CPU.VerifHaltbug())
				for _, a := range res.Acc {
					if a.Write && a.Addr == 0xff01 {
						pending = append(pending, a.Val)
					}
				}
				inFlight = true
			}
		}
		m.Cycle()
	}
	return len(want), "", nil
}

func c23Tail(b []byte) []byte {
	if len(b) > 8 {
		return b[len(b)-8:]
	}
	return b
}

func TestC23(t *testing.T) {
	c := vf.New(t, "C23", "(a) rapid sequences of direct writes/reads of SB, SC and other registers interleaved with hardware ticks, with a writer and with none (metamorphic: same history without the SB writes); "+
		"(b) rapid programs that store random bytes to SB and SC through every store form (LDH, LD (C), LD (HL),r/n, LD (nn),A, LD (HL+/-),A, LD (BC/DE),A, INC (HL)) mixed with other instructions, in lock-step with the reference, the writer's transcript compared after every instruction with the reference's stores to FF01; "+
		"(c) blargg ROMs on the full machine with per-instruction store prediction. Non-trivial: at least two SB writes with other traffic in between; distinct by case hash.")
	defer c.Flush()
	c.RunReplays()
	if c.Env.Shard == 0 {
		roms := []string{"blargg/cpu_instrs/individual/06-ld r,r.gb", "blargg/instr_timing/instr_timing.gb"}
		frames := 200
		if c.Env.Thorough() {
			roms = append(roms, "blargg/cpu_instrs/cpu_instrs.gb", "blargg/mem_timing/mem_timing.gb", "blargg/cpu_instrs/individual/02-interrupts.gb", "blargg/cpu_instrs/individual/03-op sp,hl.gb")
			frames = 3500
		}
		for _, r := range roms {
			n, sig, err := c23RunROM(r, frames)
			c.Case("rom-transcript", vf.Hash(r), n >= 2, func() interface{} { return fmt.Sprintf("%s: %d bytes stored to FF01", r, n) })
			c.Extra("rom_bytes_"+r, n)
			if err != nil {
				if !c.Fail("rom", sig, err.Error(), map[string]string{"rom": r}) {
					t.Errorf("%v", err)
				}
			}
		}
	}

	opGen := rapid.Custom(func(rt *rapid.T) c23Op {
		switch rapid.IntRange(0, 9).Draw(rt, "kind") {
		case 0, 1, 2:
			return c23Op{Kind: "w", A: 0xff01, V: rapid.Byte().Draw(rt, "v")}
		case 3:
			return c23Op{Kind: "w", A: 0xff02, V: rapid.Byte().Draw(rt, "v")}
		case 4:
			return c23Op{Kind: "r", A: uint16(rapid.SampledFrom([]int{0xff01, 0xff02}).Draw(rt, "a"))}
		case 5, 6, 7:
			return c23Op{Kind: "w", A: rapid.SampledFrom(c23OtherIO).Draw(rt, "a"), V: rapid.Byte().Draw(rt, "v")}
		default:
			return c23Op{Kind: "t", N: rapid.IntRange(1, 300).Draw(rt, "n")}
		}
	})
	c.Rapid("direct", 8000, 200000, func(rt *rapid.T) {
		cas := c23Case{Ops: rapid.SliceOfN(opGen, 1, 80).Draw(rt, "ops"), Nil: rapid.IntRange(0, 3).Draw(rt, "nil") == 0}
		sb, other := 0, 0
		for _, op := range cas.Ops {
			if op.Kind == "w" && op.A == 0xff01 {
				sb++
			} else if sb > 0 {
				other++
			}
		}
		class := "direct"
		if cas.Nil {
			class = "direct-nil-writer"
		}
		c.Case(class, vf.Hash(cas), sb >= 2 && other > 0, func() interface{} { return cas })
		sig, err := c23RunDirect(cas)
		if err != nil {
			if !c.Fail("direct", sig, err.Error(), cas) {
				rt.Fatalf("%v", err)
			}
		}
	})

	c23Rig = c23NewRig()
	c.Rapid("programs", 12000, 300000, func(rt *rapid.T) {
		var cas c23Prog
		cas.LS = lsCase{R: lsGenRegs(rt), MaxCycles: rapid.IntRange(60, 800).Draw(rt, "cycles")}
		n := rapid.IntRange(3, 40).Draw(rt, "nblocks")
		fl := lsFlavour{flow: 2, mem: 3, raw: 1}
		for i := 0; i < n; i++ {
			if rapid.IntRange(0, 2).Draw(rt, "store?") == 0 {
				cas.LS.Code = append(cas.LS.Code, c23GenStore(rt)...)
			} else {
				cas.LS.Code = append(cas.LS.Code, lsGenInstr(rt, fl, n*3)...)
			}
		}
		cas.LS.Code = append(cas.LS.Code, 0, 0, 0, 0, 0, 0, 0, 0)
		var subs []cpuPoke
		cas.LS.Handlers, subs = lsGenHandlers(rt, lsFlavour{mem: 2})
		cas.LS.Pokes = append(lsStackFill(rt, len(cas.LS.Code)), subs...)
		stores, st, sig, err := c23RunProg(cas)
		c.Case("program", vf.Hash(cas), stores >= 2, func() interface{} { return cas })
		c.Class("program-sb-stores", int64(stores))
		c.Class("program-end-"+st.End, 1)
		if err != nil {
			if !c.Fail("program", sig, err.Error(), cas) {
				rt.Fatalf("%v", err)
			}
		}
	})
}
