package checks

import (
	"encoding/json"
	"fmt"
	"testing"

	"pgregory.net/rapid"

	"verifharness/machine"
	"verifharness/vf"
)

// C21 — channel waveforms run at the documented frequencies.
//
// Oracle (property statement; gbdev "Game Boy sound hardware": Square Wave,
// Wave Channel, Noise Channel):
//   timing  through the verif hooks (duty position, wave position, LFSR value) the
//           cumulative number of waveform steps S(c) after c machine cycles must be
//           floor((4c + phi) / P) for ONE constant phi (any sign: the delay between the
//           trigger and the first step is not part of the property), from the first
//           observed step to the end of the observation (interval intersection);
//           P = 4(2048-f) for channels 1 and 2, 2(2048-f) for channel 3,
//           d(r) << s for channel 4 with d = 8,16,32,48,64,80,96,112;
//   lfsr    the bit stream out[i] = bit 0 of the LFSR after its i-th step satisfies
//           out[i+15] = out[i] xor out[i+1] (NR43 bit 3 set: out[i+7] = ...) from some
//           i <= 16 on, is not constant, and has least period 32767 (127) over more than two periods.
//
// Preconditions enforced by construction: sound on, the measured channel's DAC on,
// length disabled, NR10 = 00 (no sweep) when channel 1 is measured, s <= 13.
// Not asserted: the delay from trigger to first step, the LFSR contents during the
// first 16 steps, anything about output amplitude.

type c21Write struct {
	A uint16 `json:"a"`
	V uint8  `json:"v"`
}

type c21Case struct {
	Ch    int        `json:"ch"`             // 1-4
	F     int        `json:"f"`              // channels 1-3: 11-bit frequency; channel 4: NR43
	Lfsr  bool       `json:"lfsr,omitempty"` // channel 4: check the output sequence instead of the step timing
	Steps int        `json:"steps"`          // timing: waveform steps to observe; lfsr: output bits to collect
	Pre   int        `json:"pre,omitempty"`  // machine cycles before the first write
	Ctx   []c21Write `json:"ctx,omitempty"`  // writes made (sound on) before the channel is started; must not touch what the measurement depends on
	F0    int        `json:"f0"`             // >= 0: the channel is first started with this frequency / NR43 ...
	Run0  int        `json:"run0,omitempty"` // ... and run for this many cycles before it is re-triggered with F
	// Retune (needs F0 >= 0): the channel is not re-triggered; F is written into the frequency registers of the
	// running channel instead: 1 = low byte only (NRx3; F and F0 share their high bits), 2 = low byte and NRx4
	// without the trigger bit (channel 4: NR43 in both cases). The new period applies from the next timer reload,
	// so the first two steps after the write are not judged.
	Retune int `json:"retune,omitempty"`
	// During: writes to registers of the *other* channels (triggers included) made while the measured channel is
	// being observed, At machine cycles after the measured trigger: they must not disturb its step timing.
	During []c21Timed `json:"during,omitempty"`
	// Fresh: the machine as constructed, sound never switched off and on again before the measurement.
	// Untouched (F0 < 0, no retune): the frequency registers / NR43 are not written before the trigger, they hold
	// what construction or the power cycle left there - F must say what that is: channel 4: the value FF22 reads
	// back; channels 1-3: 0, after a power cycle only (their frequency cannot be read back).
	Fresh     bool `json:"fresh,omitempty"`
	Untouched bool `json:"untouched,omitempty"`
}

type c21Timed struct {
	At int    `json:"at"`
	A  uint16 `json:"a"`
	V  uint8  `json:"v"`
}

var c21ROM = machine.MakeROM(0, 0, 0)

var c21Div = [8]int{8, 16, 32, 48, 64, 80, 96, 112}

func c21Period(ch, f int) int {
	switch ch {
	case 1, 2:
		return 4 * (2048 - f)
	case 3:
		return 2 * (2048 - f)
	}
	return c21Div[f&7] << uint(f>>4)
}

func c21ChannelOf(a uint16) int {
	switch {
	case a >= 0xff10 && a <= 0xff14:
		return 0
	case a >= 0xff16 && a <= 0xff19:
		return 1
	case a >= 0xff1a && a <= 0xff1e, a >= 0xff30 && a <= 0xff3f:
		return 2
	case a >= 0xff20 && a <= 0xff23:
		return 3
	}
	return -1
}

// c21CtxAllowed: a context write must not start, stop or retune the measured channel.
func c21CtxAllowed(ch int, a uint16, v uint8) bool {
	if a < 0xff10 || a > 0xff3f || a == 0xff26 || (a > 0xff26 && a < 0xff30) || a == 0xff15 || a == 0xff1f {
		return false
	}
	own := c21ChannelOf(a) == ch-1
	if !own {
		// other channels are free, except that channel 1's sweep is irrelevant to them anyway
		return true
	}
	switch ch {
	case 1:
		return a == 0xff11 // duty / length data (length stays disabled)
	case 2:
		return a == 0xff16
	case 3:
		return a == 0xff1b || (a == 0xff1c) || a >= 0xff30 // length data, output level, wave RAM (written before the channel is on)
	}
	return a == 0xff20
}

type c21Ev struct {
	c int64 // machine cycles since the measured trigger
	s int64 // cumulative steps after that cycle
}

// c21Fit reports whether one phi fits S(c) = floor((4c+phi)/P) for all events (and no further step before the
// end of cycle n; n < 0: nothing is said about what follows the last event).
func c21Fit(evs []c21Ev, n int64, P int64) bool {
	lo, hi := int64(-1)<<60, int64(1)<<60
	prev := int64(0)
	for _, e := range evs {
		if a := e.s*P - 4*e.c; a > lo {
			lo = a
		}
		if prev > 0 {
			if b := (prev+1)*P - 4*(e.c-1) - 1; b < hi {
				hi = b
			}
		}
		prev = e.s
	}
	if prev > 0 && n >= 0 {
		if b := (prev+1)*P - 4*n - 1; b < hi {
			hi = b
		}
	}
	return lo <= hi
}

// c21Pos is the observable waveform position of a channel (duty index, wave position, LFSR).
func c21Pos(hw *machine.M, ch int) int64 {
	switch ch {
	case 1, 2:
		return int64(hw.A.VerifDuty(ch))
	case 3:
		return int64(hw.A.VerifWavePos())
	}
	return int64(hw.A.VerifLFSR())
}

// c21Delta: steps made between two observed positions.
func c21Delta(ch int, last, p int64) int64 {
	switch ch {
	case 1, 2:
		return (p - last + 8) % 8
	case 3:
		return (p - last + 32) % 32
	}
	return 1
}

func c21Start(hw *machine.M, ch, f int) {
	switch ch {
	case 1:
		hw.Mp.Write(0xff13, uint8(f))
		hw.Mp.Write(0xff14, 0x80|uint8(f>>8))
	case 2:
		hw.Mp.Write(0xff18, uint8(f))
		hw.Mp.Write(0xff19, 0x80|uint8(f>>8))
	case 3:
		hw.Mp.Write(0xff1d, uint8(f))
		hw.Mp.Write(0xff1e, 0x80|uint8(f>>8))
	default:
		hw.Mp.Write(0xff22, uint8(f))
		hw.Mp.Write(0xff23, 0x80)
	}
}

func c21Run(cas c21Case) (sig string, err error) {
	defer vf.Recover(&sig, &err)
	if cas.Ch < 1 || cas.Ch > 4 || cas.F < 0 || (cas.Ch < 4 && cas.F > 2047) || (cas.Ch == 4 && (cas.F > 255 || cas.F>>4 > 13)) || cas.Steps < 1 || cas.Pre < 0 || cas.Pre > 1<<20 || cas.Run0 < 0 || cas.Run0 > 1<<21 {
		return "bad-case", fmt.Errorf("case outside the property's domain: %+v", cas)
	}
	if cas.F0 >= 0 && ((cas.Ch < 4 && cas.F0 > 2047) || (cas.Ch == 4 && (cas.F0 > 255 || cas.F0>>4 > 13))) {
		return "bad-case", fmt.Errorf("f0 outside the property's domain: %+v", cas)
	}
	hw := machine.NewHW(c21ROM, nil, false)
	for i := 0; i < cas.Pre; i++ {
		hw.HW()
	}
	if !cas.Fresh {
		hw.Mp.Write(0xff26, 0x00)
		hw.Mp.Write(0xff26, 0x80)
	}
	if cas.Untouched {
		if cas.F0 >= 0 || cas.Retune != 0 || (cas.Ch < 4 && (cas.Fresh || cas.F != 0)) || (cas.Ch == 4 && int(hw.Mp.Read(0xff22)) != cas.F) {
			return "bad-case", fmt.Errorf("untouched frequency registers: F must be what they hold (channel 4: FF22 reads %02x; channels 1-3: 0 after a power cycle): %+v", hw.Mp.Read(0xff22), cas)
		}
	}
	for i, w := range cas.Ctx {
		if !c21CtxAllowed(cas.Ch, w.A, w.V) {
			return "bad-case", fmt.Errorf("context write %d (%04x=%02x) touches what the measurement of channel %d depends on", i, w.A, w.V, cas.Ch)
		}
		hw.Mp.Write(w.A, w.V)
	}
	switch cas.Ch {
	case 1:
		hw.Mp.Write(0xff12, 0xf0)
	case 2:
		hw.Mp.Write(0xff17, 0xf0)
	case 3:
		hw.Mp.Write(0xff1a, 0x80)
	default:
		hw.Mp.Write(0xff21, 0xf0)
	}
	var preEvs []c21Ev // steps made while running at F0: machine cycles since the first trigger, cumulative steps
	var preSteps int64
	if cas.F0 >= 0 {
		c21Start(hw, cas.Ch, cas.F0)
		lastp := c21Pos(hw, cas.Ch)
		for i := 0; i < cas.Run0; i++ {
			hw.HW()
			if p := c21Pos(hw, cas.Ch); p != lastp {
				preSteps += c21Delta(cas.Ch, lastp, p)
				lastp = p
				preEvs = append(preEvs, c21Ev{int64(i + 1), preSteps})
			}
		}
	}
	if cas.Retune != 0 {
		// (channel 4: the width bit stays as it was - switching a running LFSR to 7 bits while its low seven bits
		// are zero locks it up, on hardware too, and steps are observed through changes of the register)
		if cas.F0 < 0 || cas.Lfsr || cas.Retune < 0 || cas.Retune > 2 || (cas.Retune == 1 && cas.Ch < 4 && cas.F>>8 != cas.F0>>8) || (cas.Ch == 4 && (cas.F^cas.F0)&0x08 != 0) {
			return "bad-case", fmt.Errorf("retune needs a running channel (and, for the low byte alone, unchanged high bits): %+v", cas)
		}
		lo := map[int]uint16{1: 0xff13, 2: 0xff18, 3: 0xff1d, 4: 0xff22}[cas.Ch]
		hw.Mp.Write(lo, uint8(cas.F))
		if cas.Retune == 2 && cas.Ch < 4 {
			hw.Mp.Write(lo+1, uint8(cas.F>>8)&7)
		}
	} else if cas.Untouched {
		hw.Mp.Write(map[int]uint16{1: 0xff14, 2: 0xff19, 3: 0xff1e, 4: 0xff23}[cas.Ch], 0x80) // the trigger alone
	} else {
		c21Start(hw, cas.Ch, cas.F)
	}
	bit := uint8(1) << uint(cas.Ch-1)
	if hw.Mp.Read(0xff26)&bit == 0 {
		return "channel-not-started", fmt.Errorf("channel %d: NR52=%02x after a trigger with the DAC on", cas.Ch, hw.Mp.Read(0xff26))
	}
	P := int64(c21Period(cas.Ch, cas.F))
	if cas.Ch == 4 && cas.Lfsr {
		return c21Lfsr(hw, cas, P)
	}
	name := []string{"", "square", "square", "wave", "noise"}[cas.Ch] // channels 1 and 2 share one generator
	mod := int64(8)
	if cas.Ch == 3 {
		mod = 32
	}
	pos := func() int64 {
		switch cas.Ch {
		case 1, 2:
			return int64(hw.A.VerifDuty(cas.Ch))
		case 3:
			return int64(hw.A.VerifWavePos())
		}
		return int64(hw.A.VerifLFSR())
	}
	n := (int64(cas.Steps)+1)*P/4 + 16
	if cas.Retune != 0 {
		n += 2*int64(c21Period(cas.Ch, cas.F0))/4 + (2*P)/4 // the running period ends first
	}
	last := pos()
	var evs []c21Ev
	var s int64
	for _, w := range cas.During {
		if c21ChannelOf(w.A) == cas.Ch-1 || !c21CtxAllowed(cas.Ch, w.A, w.V) || w.At < 0 {
			return "bad-case", fmt.Errorf("write %04x=%02x during the observation touches the measured channel", w.A, w.V)
		}
	}
	for c := int64(1); c <= n; c++ {
		for _, w := range cas.During {
			if int64(w.At) == c-1 {
				hw.Mp.Write(w.A, w.V)
			}
		}
		hw.HW()
		p := pos()
		if p != last {
			if cas.Ch == 4 {
				s++
			} else {
				s += (p - last + mod) % mod
			}
			last = p
			evs = append(evs, c21Ev{c, s})
		}
	}
	if hw.Mp.Read(0xff26)&bit == 0 {
		return "channel-stopped", fmt.Errorf("channel %d went off during the observation although length is disabled", cas.Ch)
	}
	if cas.Retune != 0 && len(evs) > 0 && len(preEvs) > 0 {
		// a write to the frequency registers does not restart the period in progress: the first step after the
		// write still falls on the grid of the old period
		first := evs[0]
		grid := append(append([]c21Ev{}, preEvs...), c21Ev{int64(cas.Run0) + first.c, preSteps + first.s})
		if first.s == 1 && !c21Fit(grid, -1, int64(c21Period(cas.Ch, cas.F0))) {
			lastPre := preEvs[len(preEvs)-1]
			return name + "-period-restarted-by-frequency-write", fmt.Errorf("channel %d running at f=%d, frequency registers rewritten (f=%d, no trigger) %d cycles after its last step: the next step came %d cycles after that last one; the period in progress (%d clocks) must run out undisturbed",
				cas.Ch, cas.F0, cas.F, int64(cas.Run0)-lastPre.c, int64(cas.Run0)+first.c-lastPre.c, c21Period(cas.Ch, cas.F0))
		}
	}
	if cas.Retune != 0 {
		if len(evs) < 4 {
			return name + "-no-steps-after-retune", fmt.Errorf("channel %d retuned from f=%d to f=%d without a trigger: only %d waveform step(s) in %d cycles (period %d clocks)", cas.Ch, cas.F0, cas.F, len(evs), n, P)
		}
		evs = evs[2:]
	}
	if len(evs) == 0 {
		return name + "-no-steps", fmt.Errorf("channel %d, f=%d (%#x): no waveform step in %d cycles (period %d clocks)", cas.Ch, cas.F, cas.F, n, P)
	}
	if c21Fit(evs, n, P) {
		return "", nil
	}
	// diagnosis: does another period explain every observation?
	first := evs[0]
	lastEv := evs[len(evs)-1]
	how := ""
	if cas.Retune != 0 {
		how = fmt.Sprintf(" (running at f=%d, then retuned without a trigger, first two steps after the write not judged)", cas.F0)
	}
	desc := fmt.Sprintf("channel %d, f=%d (%#x)"+how+": %d steps in %d cycles (first after cycle %d, last after cycle %d) do not fit one step every %d clocks with any constant phase", cas.Ch, cas.F, cas.F, s, n, first.c, lastEv.c, P)
	type hyp struct {
		sig string
		p   int64
	}
	var hyps []hyp
	if cas.Ch == 4 {
		d := int64(c21Div[cas.F&7])
		sh := uint(cas.F >> 4)
		if sh > 0 {
			hyps = append(hyps, hyp{"noise-shift-ignored", d})
			if (d<<sh)%256 != 0 {
				hyps = append(hyps, hyp{"noise-period-truncated-to-8-bits", (d << sh) % 256})
			}
		}
		hyps = append(hyps, hyp{"noise-period-halved", P / 2}, hyp{"noise-period-doubled", P * 2})
	} else {
		hyps = append(hyps, hyp{name + "-period-halved", P / 2}, hyp{name + "-period-doubled", P * 2})
		if cas.Ch == 3 {
			hyps = append(hyps, hyp{name + "-period-of-2047-f-plus-one", 2 * (2047 - int64(cas.F))})
		} else {
			hyps = append(hyps, hyp{name + "-period-of-2047-f-plus-one", 4 * (2047 - int64(cas.F))})
		}
	}
	if cas.Retune != 0 {
		hyps = append([]hyp{{name + "-retune-ignored-until-trigger", int64(c21Period(cas.Ch, cas.F0))}}, hyps...)
	}
	for _, h := range hyps {
		if h.p > 0 && h.p != P && c21Fit(evs, n, h.p) {
			return h.sig, fmt.Errorf("%s; one step every %d clocks fits", desc, h.p)
		}
	}
	if len(evs) >= 2 && lastEv.s > first.s {
		avg := 4 * float64(lastEv.c-first.c) / float64(lastEv.s-first.s)
		return name + "-step-period-wrong", fmt.Errorf("%s; observed about one step every %.1f clocks", desc, avg)
	}
	return name + "-step-period-wrong", fmt.Errorf("%s", desc)
}

// c21Lfsr collects cas.Steps output bits and checks recurrence, non-constancy and least period.
func c21Lfsr(hw *machine.M, cas c21Case, P int64) (string, error) {
	width, k, want := "15bit", 15, 32767
	if cas.F&0x08 != 0 {
		width, k, want = "7bit", 7, 127
	}
	if cas.Steps < 2*want+32 {
		return "bad-case", fmt.Errorf("lfsr check needs at least %d output bits, case asks for %d", 2*want+32, cas.Steps)
	}
	out := make([]uint8, 0, cas.Steps)
	budget := int64(cas.Steps)*P/4*3/2 + 1024
	last := hw.A.VerifLFSR()
	for c := int64(0); c < budget && len(out) < cas.Steps; c++ {
		hw.HW()
		if v := hw.A.VerifLFSR(); v != last {
			last = v
			out = append(out, uint8(v&1))
		}
	}
	what := fmt.Sprintf("NR43=%02x (%s mode)", cas.F, width)
	if len(out) < cas.Steps {
		if len(out) < 16 {
			return "noise-lfsr-stuck", fmt.Errorf("%s: the LFSR changed only %d times in %d cycles (one step every %d clocks expected)", what, len(out), budget, P)
		}
		return "noise-lfsr-too-few-steps", fmt.Errorf("%s: only %d LFSR steps in %d cycles (one step every %d clocks expected)", what, len(out), budget, P)
	}
	tail := out[16:]
	constant := true
	for _, b := range tail {
		if b != tail[0] {
			constant = false
			break
		}
	}
	if constant {
		return "noise-lfsr-constant", fmt.Errorf("%s: output bit constant (%d) from step 16 to step %d", what, tail[0], len(out))
	}
	// least period of tail (KMP failure function)
	fl := make([]int32, len(tail)+1)
	fl[0] = -1
	kk := int32(-1)
	for i := 0; i < len(tail); i++ {
		for kk >= 0 && tail[kk] != tail[i] {
			kk = fl[kk]
		}
		kk++
		fl[i+1] = kk
	}
	period := len(tail) - int(fl[len(tail)])
	// recurrence from the earliest possible step
	T := -1
	for t := 0; t <= 16; t++ {
		ok := true
		for i := t; i+k < len(out); i++ {
			if out[i+k] != out[i]^out[i+1] {
				ok = false
				break
			}
		}
		if ok {
			T = t
			break
		}
	}
	if period != want {
		rec := "which also violates"
		if T >= 0 {
			rec = "although it satisfies"
		}
		pd := fmt.Sprintf("%d", period)
		if period > len(tail)/2 {
			pd = "none within the window"
		}
		return "noise-" + width + "-period", fmt.Errorf("%s: least period of the output bit stream over %d steps is %s, want %d (%s out[i+%d] = out[i]^out[i+1])", what, len(tail), pd, want, rec, k)
	}
	if T < 0 {
		return "noise-" + width + "-recurrence", fmt.Errorf("%s: output has period %d but does not satisfy out[i+%d] = out[i]^out[i+1] after any transient <= 16 steps (different taps?)", what, period, k)
	}
	return "", nil
}

// c21Sweep: channel 1 retuned by its own frequency sweep. The documented sequence f(k+1) = f(k) +/- (f(k) >> s)
// is applied every p sweep clocks (128 Hz); every interval between two duty steps must be 4 x (2048 - f(k)) clocks
// for the k in force when the interval began. When exactly the first sweep clock falls is not asserted: k may be
// any of the counts compatible with a first clock anywhere in the first sweep period.
type c21Sweep struct {
	F0     int  `json:"f0"`
	Period int  `json:"period"` // 1-7
	Shift  int  `json:"shift"`  // 1-7
	Down   bool `json:"down"`
	Pre    int  `json:"pre"`
	// Restart > 0 (upward sweeps that overflow): once the overflow has switched the channel off, that many further
	// sweep periods pass, the sweep is disabled (NR10 = 00) and the channel is started again through NR14 alone with
	// high bits 3: the frequency is then 0x300 plus the low byte of the last frequency the sweep wrote back.
	Restart int `json:"restart,omitempty"`
}

func c21RunSweep(c c21Sweep) (sig string, err error) {
	defer vf.Recover(&sig, &err)
	if c.F0 < 0 || c.F0 > 2047 || c.Period < 1 || c.Period > 7 || c.Shift < 1 || c.Shift > 7 || c.Pre < 0 || c.Pre > 1<<20 {
		return "bad-case", fmt.Errorf("case outside the domain: %+v", c)
	}
	hw := machine.NewHW(c21ROM, nil, false)
	for i := 0; i < c.Pre; i++ {
		hw.HW()
	}
	hw.Mp.Write(0xff26, 0x00)
	hw.Mp.Write(0xff26, 0x80)
	hw.Mp.Write(0xff12, 0xf0)
	nr10 := uint8(c.Period<<4 | c.Shift)
	if c.Down {
		nr10 |= 0x08
	}
	hw.Mp.Write(0xff10, nr10)
	c21Start(hw, 1, c.F0)
	// the documented frequency sequence
	fs := []int{c.F0}
	for len(fs) < 8 {
		f := fs[len(fs)-1]
		d := f >> uint(c.Shift)
		if c.Down {
			f -= d
		} else {
			f += d
		}
		if f > 2047 {
			break // overflow: the channel is switched off (C19's business)
		}
		fs = append(fs, f)
	}
	const S = 8192 // machine cycles per sweep clock (128 Hz)
	pS := int64(c.Period) * S
	total := int64(len(fs)+1) * pS
	if total > 5*pS {
		total = 5 * pS
	}
	last := hw.A.VerifDuty(1)
	var at []int64
	for t := int64(1); t <= total; t++ {
		hw.HW()
		if hw.Mp.Read(0xff26)&1 == 0 {
			break
		}
		if d := hw.A.VerifDuty(1); d != last {
			last = d
			at = append(at, t)
		}
	}
	judged := 0
	for i := 0; i+1 < len(at); i++ {
		iv := 4 * (at[i+1] - at[i])
		q := int(at[i] / pS)
		ok := false
		var want []int64
		for k := q - 1; k <= q+1; k++ {
			if k < 0 || k >= len(fs) {
				continue
			}
			P := int64(4 * (2048 - fs[k]))
			want = append(want, P)
			ok = ok || iv == P
		}
		if len(want) == 0 {
			continue
		}
		judged++
		if !ok {
			sig = "square-sweep-period-not-followed"
			if iv == int64(4*(2048-c.F0)) {
				sig = "square-sweep-period-stale"
			}
			return sig, fmt.Errorf("channel 1 started at f=%d with NR10=%02x: the duty step interval beginning %d cycles after the trigger is %d clocks; the sweep has by then produced f=%v, so 4x(2048-f) is one of %v",
				c.F0, nr10, at[i], iv, fs[c21Max(0, q-1):c21Min(len(fs), q+2)], want)
		}
	}
	if c.Restart > 0 && !c.Down && len(fs) < 8 {
		if c.Restart > 6 {
			return "bad-case", fmt.Errorf("restart after at most 6 sweep periods")
		}
		for t := int64(0); t < int64(len(fs)+2)*pS && hw.Mp.Read(0xff26)&1 != 0; t++ {
			hw.HW()
		}
		if hw.Mp.Read(0xff26)&1 != 0 {
			return "", nil // no switch-off: C19's subject
		}
		for t := int64(0); t < int64(c.Restart)*pS; t++ {
			hw.HW()
		}
		hw.Mp.Write(0xff10, 0x00)
		hw.Mp.Write(0xff14, 0x83)
		f2 := 0x300 | fs[len(fs)-1]&0xff
		P := int64(4 * (2048 - f2))
		last = hw.A.VerifDuty(1)
		at = at[:0]
		for t := int64(1); t <= 8*P/4+16 && len(at) < 6; t++ {
			hw.HW()
			if d := hw.A.VerifDuty(1); d != last {
				last = d
				at = append(at, t)
			}
		}
		if len(at) < 3 {
			return "square-restart-after-sweep-overflow", fmt.Errorf("channel 1 (f=%d, NR10=%02x) swept into overflow with the frequency registers holding %d; restarted %d sweep period(s) later through NR14=83 alone it made %d duty steps in %d cycles (f = %#x, one step every %d clocks expected)",
				c.F0, nr10, fs[len(fs)-1], c.Restart, len(at), 8*P/4+16, f2, P)
		}
		for i := 0; i+1 < len(at); i++ {
			if iv := 4 * (at[i+1] - at[i]); iv != P {
				return "square-restart-after-sweep-overflow", fmt.Errorf("channel 1 (f=%d, NR10=%02x) swept into overflow with the frequency registers holding %d; restarted %d sweep period(s) later through NR14=83 alone (so f = %#x) its duty steps are %d clocks apart, want 4x(2048-f) = %d",
					c.F0, nr10, fs[len(fs)-1], c.Restart, f2, iv, P)
			}
		}
	}
	return "", nil
}

func c21Max(a, b int) int {
	if a > b {
		return a
	}
	return b
}

func c21Min(a, b int) int {
	if a < b {
		return a
	}
	return b
}

func init() {
	vf.RegisterReplay("C21/sweep", func(raw json.RawMessage) (string, error) {
		var c c21Sweep
		if err := json.Unmarshal(raw, &c); err != nil {
			return "", err
		}
		return c21RunSweep(c)
	})
}

func init() {
	for _, name := range []string{"tone", "noise-timing", "noise-lfsr", "tone-ctx", "noise-timing-ctx", "noise-lfsr-ctx"} {
		vf.RegisterReplay("C21/"+name, func(raw json.RawMessage) (string, error) {
			var c c21Case
			if err := json.Unmarshal(raw, &c); err != nil {
				return "", err
			}
			return c21Run(c)
		})
	}
}

func c21Check(cas c21Case) string {
	switch {
	case cas.Ch < 4:
		return "tone"
	case cas.Lfsr:
		return "noise-lfsr"
	}
	return "noise-timing"
}

func c21ToneSteps(ch, f int) int {
	// about 8 steps, more for the fastest waveforms so that at least 48 cycles are observed
	steps := 8
	if p := c21Period(ch, f); 9*p/4 < 48 {
		steps = 48*4/p + 1
	}
	return steps
}

func c21LfsrBits(nr43 int) int {
	if nr43&0x08 != 0 {
		return 6*127 + 64
	}
	return 2*32767 + 96
}

// enumeration bookkeeping shared by the three exhaustive campaigns
type c21Enum struct {
	c        *vf.Collector
	t        *testing.T
	n, nt    int64
	seen     map[string]bool
	failures int
}

func (e *c21Enum) run(class string, cas c21Case, sampleIt bool) {
	sig, err := c21Run(cas)
	e.n++
	e.nt++ // every enumerated measurement observes >= 5 steps / > 2 LFSR periods unless it fails
	if sampleIt {
		e.c.Sample(class, cas)
	}
	if err == nil {
		return
	}
	e.c.Class("fail:"+sig, 1)
	if e.c.OpenKnown(sig) {
		e.c.Fail(c21Check(cas), sig, err.Error(), cas)
		return
	}
	if e.seen[c21Check(cas)+"/"+sig] {
		return
	}
	e.seen[c21Check(cas)+"/"+sig] = true
	e.c.Fail(c21Check(cas), sig, err.Error(), cas)
	e.failures++
	if e.failures <= 4 {
		e.t.Errorf("%s: %v", sig, err)
	}
}

func TestC21(t *testing.T) {
	c := vf.New(t, "C21", "enumeration: channels 1-3 x every frequency 0-2047 (trigger on a clean power cycle, >= 8 steps observed), channel 4 x every NR43 with s <= 13 (224 values, >= 5 steps), LFSR output stream for 15-bit mode at the fastest clocks (thorough: every r, s <= 3) and 7-bit mode (quick: every r, s <= 5; thorough: every r, s <= 13); "+
		"rapid: the same measurements in a drawn context (0-5000 cycles before power-on, up to 12 writes to registers the measurement does not depend on, including starting other channels, optionally the measured channel first running at another frequency for 0-20000 cycles before the re-trigger, or retuned while running by a write to NRx3 alone / NRx3+NRx4 without a trigger / NR43; other channels written and triggered during the observation); channel 1 retuned by its own frequency sweep; each channel triggered with its frequency registers never written, and measurements on the machine as constructed (no power cycle; a fifth of the rapid cases too). "+
		"Non-trivial: a timing measurement that observed at least 4 steps after the first, or an LFSR stream of more than two periods. Enumerated cases are distinct by construction; rapid cases distinct by hash.")
	defer c.Flush()
	c.RunReplays()

	c.Sub("tone", func(t *testing.T) {
		e := &c21Enum{c: c, t: t, seen: map[string]bool{}}
		for i := 0; i < 3*2048; i++ {
			if !c.Env.Mine(i) {
				continue
			}
			ch, f := 1+i/2048, i%2048
			e.run(fmt.Sprintf("enum:ch%d-frequency", ch), c21Case{Ch: ch, F: f, Steps: c21ToneSteps(ch, f), F0: -1}, f%701 == 0)
		}
		c.Bulk("enum:tone-frequencies", e.n, e.nt)
		c.Exhaustive("channels 1, 2, 3 x every 11-bit frequency 0-2047 (partitioned across shards)")
	})

	// no power cycle and / or no write to the frequency registers before the trigger: whatever the emulator
	// computes from a frequency write must also be in place when no such write was ever made
	c.Sub("untouched", func(t *testing.T) {
		e := &c21Enum{c: c, t: t, seen: map[string]bool{}}
		idx := 0
		for _, pre := range []int{0, 1, 777, 70000} {
			for _, fresh := range []bool{true, false} {
				for ch := 1; ch <= 4; ch++ {
					for _, lfsr := range []bool{false, true} {
						if (lfsr && ch != 4) || (fresh && ch != 4) {
							continue
						}
						idx++
						if !c.Env.Mine(idx) {
							continue
						}
						cas := c21Case{Ch: ch, F: 0, Steps: 6, F0: -1, Pre: pre, Fresh: fresh, Untouched: true}
						if lfsr {
							cas.Lfsr, cas.Steps = true, c21LfsrBits(0)
						}
						e.run("enum:untouched-frequency-registers", cas, true)
					}
				}
			}
		}
		// fresh machine, registers written as usual
		for i := 0; i < 4*24; i++ {
			idx++
			if !c.Env.Mine(idx) {
				continue
			}
			ch := 1 + i%4
			f := (i*197 + 31) % 2048
			if ch == 4 {
				f = (i * 11) % 224
			}
			steps := 5
			if ch < 4 {
				steps = c21ToneSteps(ch, f)
			}
			e.run("enum:fresh-machine", c21Case{Ch: ch, F: f, Steps: steps, F0: -1, Pre: (i * 997) % 5000, Fresh: true}, i%17 == 0)
		}
		c.Bulk("enum:untouched-or-fresh", e.n, e.nt)
		c.Exhaustive("each channel triggered without any write to its frequency registers / NR43 (after a power cycle; channel 4 also on the machine as constructed), timing and LFSR stream; 96 measurements on the machine as constructed (no power cycle)")
	})

	c.Sub("noise-timing", func(t *testing.T) {
		e := &c21Enum{c: c, t: t, seen: map[string]bool{}}
		for i := 0; i < 14*16; i++ {
			if !c.Env.Mine(i) {
				continue
			}
			nr43 := i // s = i>>4 <= 13
			e.run("enum:noise-nr43-timing", c21Case{Ch: 4, F: nr43, Steps: 5, F0: -1}, i%37 == 0)
		}
		c.Bulk("enum:noise-nr43-timing", e.n, e.nt)
		c.Exhaustive("channel 4 x every NR43 value with shift s <= 13 (both widths, 224 values): step timing")
	})

	c.Sub("noise-lfsr", func(t *testing.T) {
		e := &c21Enum{c: c, t: t, seen: map[string]bool{}}
		var list []int
		maxS15, maxS7 := 0, 5
		if c.Env.Thorough() {
			maxS15, maxS7 = 3, 13
		}
		for s := 0; s <= maxS7; s++ {
			for r := 0; r < 8; r++ {
				list = append(list, s<<4|0x08|r)
				if s <= maxS15 || (s <= 2 && r == 0) {
					list = append(list, s<<4|r)
				}
			}
		}
		for i, nr43 := range list {
			if !c.Env.Mine(i) {
				continue
			}
			e.run("enum:noise-lfsr-stream", c21Case{Ch: 4, F: nr43, Lfsr: true, Steps: c21LfsrBits(nr43), F0: -1}, i%11 == 0)
		}
		c.Bulk("enum:noise-lfsr-stream", e.n, e.nt)
		if c.Env.Thorough() {
			c.Exhaustive("LFSR output stream: 15-bit mode for every r with s <= 3, 7-bit mode for every r with s <= 13")
		} else {
			c.Exhaustive("LFSR output stream: 15-bit mode for every r with s = 0 and r = 0 with s <= 2, 7-bit mode for every r with s <= 5")
		}
	})

	c.Sub("sweep-retune", func(t *testing.T) {
		var n int64
		idx := 0
		for _, f0 := range []int{300, 700, 1024, 1400, 1800, 1990} {
			for _, p := range []int{1, 2, 3} {
				for _, sh := range []int{1, 2, 3, 5, 7} {
					for _, down := range []bool{false, true} {
						idx++
						if !c.Env.Mine(idx) {
							continue
						}
						cas := c21Sweep{F0: f0 + idx%7, Period: p, Shift: sh, Down: down, Pre: (idx * 977) % 5000}
						if !down && sh <= 3 {
							cas.Restart = 1 + idx%3 // upward sweeps with these shifts overflow within a few steps
						}
						sig, err := c21RunSweep(cas)
						n++
						if idx%23 == 0 {
							c.Sample("enum:sweep-retune", cas)
						}
						if err != nil {
							if known, first := c.FailFirst("sweep", sig, err.Error(), cas); !known && first {
								t.Errorf("%v", err)
							}
						}
					}
				}
			}
		}
		c.Bulk("enum:sweep-retune", n, n)
		c.Exhaustive("channel 1 with its frequency sweep running: 6 start frequencies x sweep periods 1-3 x shifts {1,2,3,5,7} x both directions, every duty step interval over up to 5 sweep periods; after an upward sweep has overflowed, 1-3 further sweep periods pass and the channel is restarted through NR14 alone: its period must follow the low byte the sweep last wrote back")
	})

	c.Rapid("context", 1600, 40000, func(rt *rapid.T) {
		cas := c21Case{Ch: rapid.IntRange(1, 4).Draw(rt, "ch"), F0: -1}
		drawF := func(label string) int {
			if cas.Ch == 4 {
				return rapid.IntRange(0, 13).Draw(rt, label+"s")<<4 | rapid.IntRange(0, 15).Draw(rt, label+"low")
			}
			if rapid.Bool().Draw(rt, label+"hi") {
				return rapid.IntRange(1792, 2047).Draw(rt, label+"fhigh")
			}
			return rapid.IntRange(0, 2047).Draw(rt, label+"f")
		}
		cas.F = drawF("f")
		cas.Pre = rapid.IntRange(0, 5000).Draw(rt, "pre")
		cas.Steps = rapid.IntRange(5, 12).Draw(rt, "steps")
		if cas.Ch < 4 {
			if m := c21ToneSteps(cas.Ch, cas.F); m > cas.Steps {
				cas.Steps = m
			}
		}
		if cas.Ch == 4 && cas.F>>4 <= 4 && rapid.IntRange(0, 5).Draw(rt, "lfsr") == 0 {
			cas.F |= 0x08 // 7-bit stream checks are cheap enough for the random campaign
			cas.Lfsr = true
			cas.Steps = c21LfsrBits(cas.F)
		}
		var allowed []uint16
		for a := uint16(0xff10); a <= 0xff3f; a++ {
			if c21CtxAllowed(cas.Ch, a, 0) {
				allowed = append(allowed, a)
			}
		}
		wgen := rapid.Custom(func(rt *rapid.T) c21Write {
			return c21Write{rapid.SampledFrom(allowed).Draw(rt, "a"), rapid.Byte().Draw(rt, "v")}
		})
		cas.Ctx = rapid.SliceOfN(wgen, 0, 12).Draw(rt, "ctx")
		cas.Fresh = rapid.IntRange(0, 4).Draw(rt, "fresh") == 0
		if cas.Fresh {
			c.Class("context:machine-as-constructed", 1)
		}
		if rapid.Bool().Draw(rt, "retrigger") {
			cas.F0 = drawF("f0")
			cas.Run0 = rapid.IntRange(0, 20000).Draw(rt, "run0")
			if !cas.Lfsr {
				switch rapid.IntRange(0, 3).Draw(rt, "retune") {
				case 0:
					cas.Retune = 2
				case 1:
					cas.Retune = 1
					if cas.Ch < 4 {
						cas.F0 = cas.F&0x700 | cas.F0&0xff
					}
				}
				if cas.Retune != 0 && cas.Ch == 4 {
					cas.F0 = cas.F0&^0x08 | cas.F&0x08
				}
			}
		}
		if !cas.Lfsr && rapid.Bool().Draw(rt, "during") {
			span := (cas.Steps + 1) * c21Period(cas.Ch, cas.F) / 4
			var others []uint16
			for _, a := range []uint16{0xff12, 0xff14, 0xff17, 0xff19, 0xff1a, 0xff1e, 0xff21, 0xff23, 0xff13, 0xff18, 0xff1d, 0xff22, 0xff10} {
				if c21ChannelOf(a) != cas.Ch-1 {
					others = append(others, a)
				}
			}
			cas.During = rapid.SliceOfN(rapid.Custom(func(rt *rapid.T) c21Timed {
				a := rapid.SampledFrom(others).Draw(rt, "da")
				v := rapid.Byte().Draw(rt, "dv")
				if a == 0xff14 || a == 0xff19 || a == 0xff1e || a == 0xff23 {
					v |= 0x80 // triggers
				}
				if a == 0xff12 || a == 0xff17 || a == 0xff21 {
					v |= 0xf0
				}
				return c21Timed{At: rapid.IntRange(0, span).Draw(rt, "dat"), A: a, V: v}
			}), 1, 8).Draw(rt, "during-writes")
		}
		class := fmt.Sprintf("context:ch%d", cas.Ch)
		if len(cas.During) > 0 {
			c.Class("feat:other-channels-written-during-the-observation", 1)
		}
		if cas.Lfsr {
			class = "context:ch4-lfsr-7bit"
		}
		if cas.Retune != 0 {
			class += "/retuned-without-trigger"
		} else if cas.F0 >= 0 {
			class += "/retriggered"
		}
		c.Case(class, vf.Hash(cas), true, func() interface{} { return cas })
		if len(cas.Ctx) > 0 {
			c.Class("feat:context-writes", 1)
		}
		sig, err := c21Run(cas)
		// (own check names: the enumerations' first, i.e. smallest, failing case must not be overwritten)
		if err != nil && !c.Fail(c21Check(cas)+"-ctx", sig, err.Error(), cas) {
			rt.Fatalf("%s: %v", sig, err)
		}
	})
}
