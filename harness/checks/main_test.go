package checks

import (
	"fmt"
	"os"
	"runtime"
	"testing"

	"verifharness/vf"
)

func TestMain(m *testing.M) {
	// package display's init() (linked in through package gameboy) lowers GOMAXPROCS
	runtime.GOMAXPROCS(runtime.NumCPU())
	os.Exit(m.Run())
}

// TestReplay executes one saved case (VERIF_REPLAY) without any generator library.
func TestReplay(t *testing.T) {
	path := os.Getenv("VERIF_REPLAY")
	if path == "" {
		t.Skip("VERIF_REPLAY not set")
	}
	doc, sig, err, found := vf.Replay(path)
	if !found {
		fmt.Printf("REPLAY-ERROR %v\n", err)
		t.Fatalf("%v", err)
	}
	if err != nil {
		fmt.Printf("REPLAY-FAIL property=%s check=%s sig=%s msg=%s\n", doc.Property, doc.Check, sig, err)
		t.Fail()
		return
	}
	fmt.Printf("REPLAY-PASS property=%s check=%s\n", doc.Property, doc.Check)
}
