package checks

import (
	"encoding/json"
	"fmt"
	"testing"

	"github.com/scottyw/tetromino/gameboy/cpu"
	"pgregory.net/rapid"

	"verifharness/machine"
	"verifharness/refcpu"
	"verifharness/vf"
)

// C02 — every instruction takes its documented number of machine cycles.
// Oracle: refcpu's cycle table (typed in from the SM83 timing reference,
// independent of tetromino's dispatch tables), with the taken/not-taken
// outcome decided by the reference from the flags at that moment.

func c02Case(op int, fl uint8, mx *cpuMix) cpuCase {
	r := refcpu.Regs{A: mx.u8(), F: fl << 4, B: 0xd3, C: 0x45, D: 0xd5, E: 0x67, H: 0xd1, L: 0x23, SP: 0xdf00 + uint16(mx.n(0xf0))&^1, PC: 0xc100 + uint16(mx.n(0x600))}
	var code []byte
	if op < 256 {
		code = []byte{uint8(op), mx.u8(), mx.u8()}
		switch uint8(op) {
		case 0xe0, 0xf0:
			code[1] = 0x80 + uint8(mx.n(0x70))
		case 0xe2, 0xf2:
			r.C = 0x80 + uint8(mx.n(0x70))
		case 0x08, 0xea, 0xfa:
			code[1], code[2] = mx.u8(), 0xd2
		}
	} else {
		code = []byte{0xcb, uint8(op - 256)}
	}
	return cpuCase{R: r, Code: code, Pokes: []cpuPoke{{r.HL(), mx.u8()}, {r.SP, mx.u8()}, {r.SP + 1, mx.u8()}}}
}

func c02Run(rg *cpuRig, c *cpuCase) (taken bool, cond bool, sig string, err error) {
	defer vf.Recover(&sig, &err)
	exp, obs, e := rg.runOne(c)
	if e != nil {
		return false, false, "rig-boundary", e
	}
	if exp.Undefined {
		return false, false, "", nil
	}
	if obs.Cycles != exp.Cycles {
		name := cpuOpName(c.Code)
		return exp.Taken, exp.Cond, "cycles-" + name, fmt.Errorf("instruction %s (code % x) with F=%02x (taken=%v) took %d machine cycles, want %d", name, c.Code, c.R.F, exp.Taken, obs.Cycles, exp.Cycles)
	}
	return exp.Taken, exp.Cond, "", nil
}

var c02Rig *cpuRig

type c02HaltCase struct {
	Src int   `json:"source"`
	Op  uint8 `json:"following_opcode"`
	A   uint8 `json:"a"`
	F   uint8 `json:"f"`
}

func c02RunHalt(rg *cpuRig, c c02HaltCase) (sig string, err error) {
	defer vf.Recover(&sig, &err)
	m := rg.m
	r := refcpu.Regs{A: c.A, F: c.F & 0xf0, B: 0x12, C: 0x34, D: 0x56, E: 0x78, H: 0xd2, L: 0x40, SP: 0xdfe0, PC: 0xc200}
	cas := cpuCase{R: r, Code: []byte{0x76, c.Op, 0x00, 0x00}, Pokes: []cpuPoke{{0xd240, c.A ^ 0x5a}}}
	rg.load(&cas)
	if e := rg.prep(r, false); e != nil {
		return "rig-boundary", e
	}
	m.Mp.Write(0xffff, 1<<uint(c.Src))
	m.Mp.Write(0xff0f, 1<<uint(c.Src))
	defer func() {
		m.Mp.Write(0xffff, 0)
		m.Mp.Write(0xff0f, 0)
	}()
	o1 := rg.exec(10, nil, nil)
	if o1.Cycles != 1 || o1.R.PC != r.PC+1 {
		return "cycles-76", fmt.Errorf("HALT with IME=0 and request bit %d pending took %d machine cycles (PC %04x), want 1", c.Src, o1.Cycles, o1.R.PC)
	}
	pre := o1.R
	exp := refcpu.Step(pre, m.Mp.Read, true)
	o2 := rg.exec(10, nil, nil)
	if o2.R != exp.R || o2.Cycles != exp.Cycles {
		return "cycles-after-halt", fmt.Errorf("HALT with IME=0 and request bit %d pending does not idle: the following instruction %02x must start in the next machine cycle and take %d cycles (registers then %+v); after %d cycle(s) the CPU is at a boundary with %+v",
			c.Src, c.Op, exp.Cycles, exp.R, o2.Cycles, o2.R)
	}
	return "", nil
}

// c02SpeedCase: a DMG has no speed switch. Writing the registers a Game Boy Color has at FF4D-FF77 (KEY1 first
// of all) and executing STOP - whatever the cartridge header says about colour support - must leave the length
// of every later instruction as documented.
type c02SpeedCase struct {
	Header uint8  `json:"header"` // cartridge byte 0143: 00, 80 (colour enhanced) or C0 (colour only)
	Reg    uint16 `json:"reg"`    // FF4C-FF7F, not a DMG register
	V      uint8  `json:"v"`
	Stop   bool   `json:"stop"` // STOP is executed after the write (and the CPU woken by a key press)
}

var c02SpeedCode = []byte{0x00, 0x34, 0x7e, 0xc5, 0xc1, 0x36, 0x5a, 0xcb, 0xc6, 0xcd, 0x40, 0xc0, 0x18, 0x02, 0x00, 0x00, 0xe5, 0xf1, 0x00, 0x00}

func c02RunSpeed(c c02SpeedCase) (sig string, err error) {
	defer vf.Recover(&sig, &err)
	if c.Reg < 0xff4c || c.Reg > 0xff7f || (c.Header != 0 && c.Header != 0x80 && c.Header != 0xc0) {
		return "invalid-case", fmt.Errorf("case outside the domain")
	}
	rom := machine.MakeROM(0, 0, 0)
	rom[0x143] = c.Header
	m := machine.New(rom, nil, false)
	m.I.Disable()
	m.Mp.Write(0xffff, 0)
	m.Mp.Write(0xff0f, 0)
	prog := []byte{0x3e, c.V, 0xea, uint8(c.Reg), uint8(c.Reg >> 8)}
	if c.Stop {
		prog = append(prog, 0x10, 0x00)
	}
	for i, b := range prog {
		m.Mp.Write(0xc000+uint16(i), b)
	}
	for i, b := range c02SpeedCode {
		m.Mp.Write(0xc020+uint16(i), b)
	}
	m.Mp.Write(0xc040, 0xc9) // RET for the CALL
	regs := cpu.VerifRegs{A: 0, F: 0x80, B: 0x12, C: 0x34, D: 0x56, E: 0x78, H: 0xd1, L: 0x00, SP: 0xdff0, PC: 0xc000}
	m.CPU.VerifSet(regs)
	step := func() int {
		n := 0
		for {
			m.Cycle()
			n++
			if m.CPU.VerifAtBoundary() || n >= 12 {
				return n
			}
		}
	}
	step() // LD A,v
	step() // LD (reg),A
	if c.Stop {
		step()
		m.CPU.OnInput() // a key press ends STOP
	}
	r := m.CPU.VerifGet()
	r.PC = 0xc020
	m.CPU.VerifSet(r)
	for k := 0; k < 14; k++ {
		pre := cpuFromHook(m.CPU.VerifGet())
		if pre.PC < 0xc020 || pre.PC > 0xc040 {
			return "", nil
		}
		exp := refcpu.Step(pre, m.Mp.Read, false)
		if exp.Undefined || exp.Halt || exp.Stop {
			return "", nil
		}
		n := step()
		if got := cpuFromHook(m.CPU.VerifGet()); n != exp.Cycles || got != exp.R {
			what := fmt.Sprintf("after writing %02x to %04x", c.V, c.Reg)
			if c.Stop {
				what += " and executing STOP"
			}
			return "cycles-after-cgb-register-write", fmt.Errorf("cartridge header 0143=%02x, %s: instruction %s at %04x took %d machine cycles (registers then %+v), documented %d (%+v)",
				c.Header, what, cpuOpName([]byte{m.Mp.Read(pre.PC), m.Mp.Read(pre.PC + 1)}), pre.PC, n, got, exp.Cycles, exp.R)
		}
	}
	return "", nil
}

func init() {
	vf.RegisterReplay("C02/speed", func(raw json.RawMessage) (string, error) {
		var c c02SpeedCase
		if err := json.Unmarshal(raw, &c); err != nil {
			return "", err
		}
		return c02RunSpeed(c)
	})
}

func c02Flavour() lsFlavour { return lsFlavour{flow: 8, mem: 6, raw: 2, irq: 1} }

func c02GenProgram(rt *rapid.T) lsCase {
	fl := c02Flavour()
	cas := lsCase{R: lsGenRegs(rt), MaxCycles: rapid.IntRange(100, 2500).Draw(rt, "cycles")}
	cas.Code = lsGenCode(rt, fl, 20, 300)
	var subs []cpuPoke
	cas.Handlers, subs = lsGenHandlers(rt, lsFlavour{mem: 4})
	cas.Pokes = append(lsStackFill(rt, len(cas.Code)), subs...)
	return cas
}

func init() {
	vf.RegisterReplay("C02/halt", func(raw json.RawMessage) (string, error) {
		var c c02HaltCase
		if err := json.Unmarshal(raw, &c); err != nil {
			return "", err
		}
		return c02RunHalt(newLockstepRig(), c)
	})

	vf.RegisterReplay("C02/opcode", func(raw json.RawMessage) (string, error) {
		var c cpuCase
		if err := json.Unmarshal(raw, &c); err != nil {
			return "", err
		}
		if c02Rig == nil {
			c02Rig = newLockstepRig()
		}
		_, _, sig, err := c02Run(c02Rig, &c)
		return sig, err
	})
	vf.RegisterReplay("C02/program", func(raw json.RawMessage) (sig string, err error) {
		var c lsCase
		if err := json.Unmarshal(raw, &c); err != nil {
			return "", err
		}
		defer vf.Recover(&sig, &err)
		if c02Rig == nil {
			c02Rig = newLockstepRig()
		}
		_, sig, err = c02Rig.lockstep(&c, lsPolicy{checkCycles: true})
		return sig, err
	})
}

func TestC02(t *testing.T) {
	c := vf.New(t, "C02", "(a) every defined base and CB opcode x all 16 flag nibbles x randomised other state, machine cycles counted between instruction boundaries and compared with refcpu's cycle table "+
		"(taken/not-taken decided by the reference from the flags); (b) rapid-generated programs (20-300 instructions, calls, conditional jumps/returns, pushes/pops, memory operands) run in lock-step with the reference, "+
		"cycle count compared for every instruction; (c) blargg instr_timing ROM verdict. Non-trivial/distinct: (a) distinct (opcode, flag nibble) pairs; (b) programs in which at least 10 instructions executed including a taken and a not-taken conditional, distinct by case hash.")
	defer c.Flush()
	c.RunReplays()

	// (c) first: it creates its own machine, and only the newest CPU may be stepped afterwards
	if c.Env.Shard == 0 {
		v := romRun("blargg/instr_timing/instr_timing.gb", 400, false)
		c.Extra("rom_instr_timing", map[string]interface{}{"verdict": v.Verdict, "frames": v.Frames, "text": v.Text})
		c.Case("rom-verdict", vf.Hash("instr_timing"), true, func() interface{} { return "blargg/instr_timing/instr_timing.gb: " + v.Verdict })
		if v.Verdict == "fail" || v.Verdict == "panic" {
			if !c.Fail("rom", "rom-instr-timing-failed", "blargg instr_timing reports: "+v.Text, map[string]string{"rom": "blargg/instr_timing/instr_timing.gb"}) {
				t.Errorf("instr_timing: %s", v.Text)
			}
		} else if v.Verdict != "pass" {
			c.Note("blargg instr_timing gave no verdict (%s) — inconclusive, not a violation", v.Verdict)
		}
	}

	rg := newLockstepRig()
	c02Rig = rg
	c.Sub("opcode-flags", func(t *testing.T) {
		reps := c.Env.Pick(64, 1024)
		mx := cpuMix(uint64(c.Env.RandSeed(2)))
		var n int64
		pairs := map[[2]int]bool{}
		outcomes := map[int]int{}
		for op := 0; op < 512; op++ {
			if op < 256 && (refcpu.IsUndefined(uint8(op)) || op == 0xcb || op == 0x10 || op == 0x76) {
				continue // STOP and HALT have no fixed length; they are C05's
			}
			if !c.Env.Mine(op) {
				continue
			}
			for fl := 0; fl < 16; fl++ {
				for k := 0; k < reps; k++ {
					cas := c02Case(op, uint8(fl), &mx)
					taken, cond, sig, err := c02Run(rg, &cas)
					n++
					if cond {
						if taken {
							outcomes[op] |= 1
						} else {
							outcomes[op] |= 2
						}
					}
					if k == 0 && (op*16+fl)%977 == 0 {
						c.Sample("opcode-flags", cas)
					}
					if err != nil {
						if known, first := c.FailFirst("opcode", sig, err.Error(), cas); !known && first {
							t.Errorf("%v", err)
						}
					}
				}
				pairs[[2]int{op, fl}] = true
			}
		}
		c.Bulk("opcode-flags", n, int64(len(pairs)))
		both := 0
		for _, o := range outcomes {
			if o == 3 {
				both++
			}
		}
		c.Class("conditional-opcodes-with-both-outcomes-in-this-shard", int64(both))
		c.Exhaustive("every defined opcode except STOP/HALT (243 base + 256 CB) x all 16 flag nibbles (hence both outcomes of every condition), x64 (quick) / x1024 (thorough) random other state")
	})

	// HALT has a documented length in one situation: with the master enable clear and an enabled request
	// already pending it does not idle, so it occupies one machine cycle and the next instruction (fetched
	// under the halt bug) starts in the following cycle and has its usual length.
	c.Sub("halt-no-idle", func(t *testing.T) {
		var n int64
		idx := 0
		for src := 0; src < 5; src++ {
			for _, op := range lsRegOps8 {
				idx++
				if !c.Env.Mine(idx) {
					continue
				}
				cas := c02HaltCase{Src: src, Op: op, A: uint8(idx * 37), F: uint8(idx%16) << 4}
				sig, err := c02RunHalt(rg, cas)
				n++
				if idx%211 == 0 {
					c.Sample("halt-no-idle", cas)
				}
				if err != nil {
					if known, first := c.FailFirst("halt", sig, err.Error(), cas); !known && first {
						t.Errorf("%v", err)
					}
				}
			}
		}
		c.Bulk("halt-no-idle", n, n)
		c.Exhaustive("HALT with IME=0 and an enabled request pending x 5 sources x every one-byte register/(HL) opcode as the following instruction: HALT takes 1 machine cycle and the following instruction its documented length")
	})

	c.Sub("cgb-registers-and-stop", func(t *testing.T) {
		var n int64
		idx := 0
		for _, hd := range []uint8{0x00, 0x80, 0xc0} {
			for reg := uint16(0xff4c); reg <= 0xff7f; reg++ {
				for _, v := range []uint8{0x01, 0x81, 0xff, 0x00, 0x7e} {
					for _, stop := range []bool{true, false} {
						idx++
						if !c.Env.Mine(idx) {
							continue
						}
						cas := c02SpeedCase{Header: hd, Reg: reg, V: v, Stop: stop}
						sig, err := c02RunSpeed(cas)
						n++
						if idx%307 == 0 {
							c.Sample("cgb-registers-and-stop", cas)
						}
						if err != nil {
							if known, first := c.FailFirst("speed", sig, err.Error(), cas); !known && first {
								t.Errorf("%v", err)
							}
						}
					}
				}
			}
		}
		c.Bulk("cgb-registers-and-stop", n, n)
		c.Exhaustive("cartridge header byte 0143 in {00, 80, C0} x every address FF4C-FF7F x 5 values, with and without a following STOP: 14 instructions of eight kinds timed afterwards")
	})

	c.Rapid("programs", 40000, 1000000, func(rt *rapid.T) {
		cas := c02GenProgram(rt)
		st, sig, err := func() (st lsStats, sig string, err error) {
			defer vf.Recover(&sig, &err)
			return rg.lockstep(&cas, lsPolicy{checkCycles: true})
		}()
		nt := st.Instrs >= 10 && st.CondTaken > 0 && st.CondNotTaken > 0
		class := "program-end-" + st.End
		if err != nil {
			class = "program-failed"
		}
		c.Case(class, vf.Hash(cas), nt, func() interface{} { return cas })
		c.Class("instructions-executed", int64(st.Instrs))
		c.Class("conditionals-taken", int64(st.CondTaken))
		c.Class("conditionals-not-taken", int64(st.CondNotTaken))
		c.Class("dispatches", int64(st.Dispatches))
		if err != nil {
			if !c.Fail("program", sig, err.Error(), cas) {
				rt.Fatalf("%v", err)
			}
		}
	})
}
