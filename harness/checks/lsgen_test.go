package checks

import (
	"sort"

	"pgregory.net/rapid"

	"verifharness/refcpu"
)

// Program grammar shared by the lock-step checks. Every random choice is a
// rapid draw. Programs live in work RAM at C000; pointers are steered into
// plain memory; subroutines and interrupt handlers live at D000+.

type lsFlavour struct {
	irq, halt, flow, mem, raw int // relative weights of the instruction families (alu is always 10)
}

var lsRegOps8 = func() []byte {
	var ops []byte
	for op := 0x40; op < 0xc0; op++ {
		if op != 0x76 {
			ops = append(ops, byte(op))
		}
	}
	for _, op := range []int{0x04, 0x05, 0x0c, 0x0d, 0x14, 0x15, 0x1c, 0x1d, 0x24, 0x25, 0x2c, 0x2d, 0x34, 0x35, 0x3c, 0x3d,
		0x07, 0x0f, 0x17, 0x1f, 0x27, 0x2f, 0x37, 0x3f, 0x03, 0x0b, 0x13, 0x1b, 0x23, 0x2b, 0x33, 0x3b, 0x09, 0x19, 0x29, 0x39, 0x00} {
		ops = append(ops, byte(op))
	}
	return ops
}()

func lsGenInstr(rt *rapid.T, fl lsFlavour, progLen int) []byte {
	total := 10 + fl.irq + fl.halt + fl.flow + fl.mem + fl.raw + 3
	k := rapid.IntRange(0, total-1).Draw(rt, "family")
	plainPtr := func(label string) uint16 {
		return uint16(rapid.IntRange(0xd400, 0xdeff).Draw(rt, label))
	}
	switch {
	case k < 10: // register/ALU
		if rapid.IntRange(0, 4).Draw(rt, "cb") == 0 {
			return []byte{0xcb, rapid.Byte().Draw(rt, "cbop")}
		}
		if rapid.IntRange(0, 4).Draw(rt, "imm") == 0 {
			op := rapid.SampledFrom([]byte{0x06, 0x0e, 0x16, 0x1e, 0x26, 0x2e, 0x3e, 0xc6, 0xce, 0xd6, 0xde, 0xe6, 0xee, 0xf6, 0xfe, 0x36}).Draw(rt, "immop")
			return []byte{op, rapid.Byte().Draw(rt, "n")}
		}
		return []byte{rapid.SampledFrom(lsRegOps8).Draw(rt, "op")}
	case k < 13: // pointer set-up
		op := rapid.SampledFrom([]byte{0x01, 0x11, 0x21, 0x21, 0x31}).Draw(rt, "ldrr")
		a := plainPtr("nn")
		if op == 0x31 {
			a = uint16(rapid.IntRange(0xdf40, 0xdff0).Draw(rt, "sp")) &^ 1
		}
		return []byte{op, byte(a), byte(a >> 8)}
	}
	k -= 13
	if k < fl.irq {
		switch rapid.IntRange(0, 9).Draw(rt, "irq") {
		case 0, 1, 2:
			return []byte{0xfb}
		case 3, 4:
			return []byte{0xf3}
		case 5:
			return []byte{0xd9}
		case 6:
			return []byte{0x3e, rapid.Byte().Draw(rt, "a") & 0x1f, 0xe0, 0x0f}
		case 7:
			return []byte{0x3e, rapid.Byte().Draw(rt, "a") & 0x1f, 0xe0, 0xff}
		case 8:
			return []byte{0xf0, 0x0f}
		default:
			return []byte{0x00}
		}
	}
	k -= fl.irq
	if k < fl.halt {
		return []byte{0x76}
	}
	k -= fl.halt
	if k < fl.flow {
		cc := byte(rapid.IntRange(0, 3).Draw(rt, "cc")) << 3
		switch rapid.IntRange(0, 9).Draw(rt, "flow") {
		case 0, 1:
			return []byte{0x20 | cc, byte(rapid.IntRange(0, 4).Draw(rt, "skip"))}
		case 2:
			return []byte{0x18, byte(rapid.IntRange(0, 3).Draw(rt, "skip"))}
		case 3:
			t := 0xc000 + rapid.IntRange(0, progLen).Draw(rt, "target")
			return []byte{0xc2 | cc, byte(t), byte(t >> 8)}
		case 4, 5:
			t := lsHandlerBase + 0x40*rapid.IntRange(5, 7).Draw(rt, "sub")
			if rapid.Bool().Draw(rt, "callcc") {
				return []byte{0xc4 | cc, byte(t), byte(t >> 8)}
			}
			return []byte{0xcd, byte(t), byte(t >> 8)}
		case 6:
			return []byte{0xc0 | cc}
		case 7:
			return []byte{0xc5 | byte(rapid.IntRange(0, 3).Draw(rt, "qq"))<<4}
		case 8:
			return []byte{0xc1 | byte(rapid.IntRange(0, 3).Draw(rt, "qq"))<<4}
		default:
			return []byte{0xc7 | byte(rapid.IntRange(0, 7).Draw(rt, "rst"))<<3}
		}
	}
	k -= fl.flow
	if k < fl.mem {
		switch rapid.IntRange(0, 7).Draw(rt, "mem") {
		case 0:
			return []byte{rapid.SampledFrom([]byte{0x02, 0x12, 0x22, 0x32, 0x0a, 0x1a, 0x2a, 0x3a}).Draw(rt, "ldind")}
		case 1:
			return []byte{0xe0, byte(rapid.IntRange(0x80, 0xf0).Draw(rt, "n"))}
		case 2:
			return []byte{0xf0, byte(rapid.IntRange(0x80, 0xf0).Draw(rt, "n"))}
		case 3:
			a := plainPtr("nn")
			return []byte{rapid.SampledFrom([]byte{0xea, 0xfa, 0x08}).Draw(rt, "ldnn"), byte(a), byte(a >> 8)}
		case 4:
			return []byte{0x0e, byte(rapid.IntRange(0x80, 0xf0).Draw(rt, "c")), rapid.SampledFrom([]byte{0xe2, 0xf2}).Draw(rt, "ldc")}
		case 5:
			return []byte{0xe8, rapid.Byte().Draw(rt, "e")}
		case 6:
			return []byte{0xf8, rapid.Byte().Draw(rt, "e")}
		default:
			return []byte{0xf9}
		}
	}
	// raw byte
	b := rapid.Byte().Draw(rt, "raw")
	if refcpu.IsUndefined(b) {
		b = 0
	}
	return []byte{b}
}

func lsGenCode(rt *rapid.T, fl lsFlavour, minI, maxI int) []byte {
	n := rapid.IntRange(minI, maxI).Draw(rt, "ninstr")
	var code []byte
	for i := 0; i < n; i++ {
		code = append(code, lsGenInstr(rt, fl, n*2)...)
	}
	return append(code, 0, 0, 0, 0, 0, 0, 0, 0)
}

func lsGenRegs(rt *rapid.T) refcpu.Regs {
	r := refcpu.Regs{A: rapid.Byte().Draw(rt, "a"), F: rapid.Byte().Draw(rt, "f") & 0xf0, PC: 0xc000}
	hl, bc, de := rapid.IntRange(0xd400, 0xdeff).Draw(rt, "hl"), rapid.IntRange(0xd400, 0xdeff).Draw(rt, "bc"), rapid.IntRange(0xd400, 0xdeff).Draw(rt, "de")
	r.H, r.L, r.B, r.C, r.D, r.E = uint8(hl>>8), uint8(hl), uint8(bc>>8), uint8(bc), uint8(de>>8), uint8(de)
	r.SP = uint16(rapid.IntRange(0xdf80, 0xdff0).Draw(rt, "sp")) &^ 1
	return r
}

// lsGenHandlers fills the five interrupt handlers and three subroutines (indices 5-7 at D140, D180, D1C0).
func lsGenHandlers(rt *rapid.T, fl lsFlavour) (h [5][]byte, subs []cpuPoke) {
	body := func(label string, irq bool) []byte {
		var b []byte
		n := rapid.IntRange(0, 3).Draw(rt, label+"-n")
		for i := 0; i < n; i++ {
			b = append(b, lsGenInstr(rt, lsFlavour{irq: fl.irq / 2, mem: fl.mem / 2}, 8)...)
		}
		end := byte(0xc9)
		if irq && rapid.IntRange(0, 3).Draw(rt, label+"-reti") != 0 {
			end = 0xd9
		}
		if len(b) > 0x30 {
			b = b[:0x30]
		}
		return append(b, end)
	}
	for i := 0; i < 5; i++ {
		h[i] = body("handler", true)
	}
	for s := 5; s < 8; s++ {
		for j, v := range body("sub", false) {
			subs = append(subs, cpuPoke{uint16(lsHandlerBase + 0x40*s + j), v})
		}
	}
	return
}

func lsGenEvents(rt *rapid.T, maxCycles, maxN int) []lsEvent {
	evs := rapid.SliceOfN(rapid.Custom(func(rt *rapid.T) lsEvent {
		return lsEvent{Cycle: rapid.IntRange(0, maxCycles-1).Draw(rt, "cycle"), Bit: rapid.IntRange(0, 4).Draw(rt, "bit")}
	}), 0, maxN).Draw(rt, "events")
	sort.SliceStable(evs, func(i, j int) bool { return evs[i].Cycle < evs[j].Cycle })
	return evs
}

// lsStackFill pre-fills the stack area with return addresses inside the program, so that a stray RET/RETI stays in it.
func lsStackFill(rt *rapid.T, progLen int) []cpuPoke {
	var p []cpuPoke
	ts := rapid.SliceOfN(rapid.IntRange(0, progLen), 4, 4).Draw(rt, "rets")
	for a, i := 0xdf40, 0; a < 0xdffe; a, i = a+2, i+1 {
		t := 0xc000 + ts[i%len(ts)]
		p = append(p, cpuPoke{uint16(a), byte(t)}, cpuPoke{uint16(a + 1), byte(t >> 8)})
	}
	return p
}
