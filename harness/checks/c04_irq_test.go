package checks

import (
	"encoding/json"
	"fmt"
	"testing"

	"pgregory.net/rapid"

	"verifharness/refcpu"
	"verifharness/vf"
)

// C04 — interrupt dispatch, priority, EI/DI/RETI. Oracle: the lock-step
// reference (lockstep_test.go): at every boundary it predicts dispatch or
// instruction from IME (with the one-instruction EI delay), IE and IF; after a
// dispatch it checks vector, 5 cycles, pushed address, IME cleared and exactly
// one IF bit cleared; after an instruction it checks that IF is untouched.

var c04Rig *cpuRig

func c04Policy() lsPolicy { return lsPolicy{allowIF: true, checkIRQ: true} }

func c04Run(cas *lsCase) (st lsStats, sig string, err error) {
	defer vf.Recover(&sig, &err)
	if c04Rig == nil {
		c04Rig = newLockstepRig()
	}
	return c04Rig.lockstep(cas, c04Policy())
}

func init() {
	vf.RegisterReplay("C04/irq", func(raw json.RawMessage) (string, error) {
		var c lsCase
		if err := json.Unmarshal(raw, &c); err != nil {
			return "", err
		}
		_, sig, err := c04Run(&c)
		return sig, err
	})
}

var c04Roms = []struct {
	path    string
	mooneye bool
	frames  int
}{
	{"blargg/cpu_instrs/individual/02-interrupts.gb", false, 300},
	{"mts-20221022-1430-8d742b9/acceptance/intr_timing.gb", true, 300},
	{"mts-20221022-1430-8d742b9/acceptance/ei_sequence.gb", true, 300},
	{"mts-20221022-1430-8d742b9/acceptance/ei_timing.gb", true, 300},
	{"mts-20221022-1430-8d742b9/acceptance/rapid_di_ei.gb", true, 300},
	{"mts-20221022-1430-8d742b9/acceptance/reti_intr_timing.gb", true, 300},
	{"mts-20221022-1430-8d742b9/acceptance/if_ie_registers.gb", true, 300},
	{"mts-20221022-1430-8d742b9/acceptance/reti_timing.gb", true, 300},
}

// c04Follow are the instructions placed at the boundary in the exhaustive sweep.
var c04Follow = [][]byte{{0x00}, {0x3c}, {0xfb}, {0xf3}, {0xd9}, {0x3e, 0x1f, 0xe0, 0x0f}, {0x76}}

func TestC04(t *testing.T) {
	c := vf.New(t, "C04", "(a) every IE (256) x IF (32) x IME (2) at an instruction boundary followed by each of 7 instruction kinds (NOP, INC A, EI, DI, RETI, a write to IF, HALT) and a second request raised at a varying machine cycle; "+
		"(b) rapid programs over EI/DI/RETI/NOP/INC/LD/writes to IF and IE/PUSH/POP/CALL/RET with handlers at the five vectors and interrupt requests raised at arbitrary machine-cycle offsets, in lock-step with the reference (EI delayed by one instruction, DI and RETI immediate); "+
		"(c) verdicts of blargg cpu_instrs 02-interrupts and the mooneye intr/ei/reti ROMs. Non-trivial: the history contains a dispatch, or an EI executed with a request pending at the following boundary; distinct by case hash / by (IE, IF, IME, follow) in (a).")
	defer c.Flush()
	c.RunReplays()
	if c.Env.Shard == 0 {
		for _, r := range c04Roms {
			v := romRun(r.path, r.frames, r.mooneye)
			c.Case("rom-verdict", vf.Hash(r.path), true, func() interface{} { return r.path + ": " + v.Verdict })
			c.Extra("rom_"+r.path, v.Verdict)
			if v.Verdict == "fail" || v.Verdict == "panic" {
				if !c.Fail("rom", "rom-failed:"+r.path, r.path+" reports failure: "+v.Text, map[string]string{"rom": r.path}) {
					t.Errorf("%s: %s", r.path, v.Text)
				}
			} else if v.Verdict != "pass" {
				c.Note("%s gave no verdict (%s) — inconclusive", r.path, v.Verdict)
			}
		}
	}
	c04Rig = newLockstepRig()

	c.Sub("ie-if-ime", func(t *testing.T) {
		var n, nt int64
		for ie := 0; ie < 256; ie++ {
			if !c.Env.Mine(ie) {
				continue
			}
			for ifr := 0; ifr < 32; ifr++ {
				for ime := 0; ime < 2; ime++ {
					for fi, fol := range c04Follow {
						cas := lsCase{R: refcpu.Regs{A: 0x11, F: 0x00, B: 0xd4, C: 0x10, D: 0xd5, E: 0x20, H: 0xd6, L: 0x30, SP: 0xdfe0, PC: 0xc000},
							IME: ime == 1, IE: uint8(ie), IF: uint8(ifr), MaxCycles: 40}
						cas.Code = append(append([]byte{}, fol...), 0x3c, 0x00, 0x04, 0x00, 0x00, 0x00, 0x00, 0x00)
						for i := range cas.Handlers {
							cas.Handlers[i] = []byte{0x0c, 0xd9} // INC C; RETI
						}
						cas.Pokes = []cpuPoke{{0xdfe0, 0x02}, {0xdfe1, 0xc0}} // a stray RETI returns into the program
						// a further request somewhere in the first 12 cycles
						cas.Events = []lsEvent{{Cycle: (ie*7 + ifr*3 + fi) % 12, Bit: (ie + ifr + fi) % 5}}
						st, sig, err := c04Run(&cas)
						n++
						if st.Dispatches > 0 || st.PendingAtEI > 0 {
							nt++
						}
						if n%9973 == 1 {
							c.Sample("ie-if-ime", cas)
						}
						if err != nil {
							if known, first := c.FailFirst("irq", sig, err.Error(), cas); !known && first {
								t.Errorf("%v", err)
							}
						}
					}
				}
			}
		}
		c.Bulk("ie-if-ime", n, nt)
		c.Exhaustive("all 256 IE x 32 IF x 2 IME at a boundary x 7 following instruction kinds")
	})

	c.Rapid("programs", 30000, 600000, func(rt *rapid.T) {
		fl := lsFlavour{irq: 14, flow: 3, mem: 2, raw: 1}
		cas := lsCase{R: lsGenRegs(rt), IME: rapid.Bool().Draw(rt, "ime"), IE: rapid.Byte().Draw(rt, "ie"), IF: rapid.Byte().Draw(rt, "if") & 0x1f,
			MaxCycles: rapid.IntRange(30, 400).Draw(rt, "cycles")}
		if rapid.Bool().Draw(rt, "ie-all") {
			cas.IE |= 0x1f
		}
		cas.Code = lsGenCode(rt, fl, 8, 60)
		var subs []cpuPoke
		cas.Handlers, subs = lsGenHandlers(rt, lsFlavour{irq: 10})
		cas.Pokes = append(lsStackFill(rt, len(cas.Code)), subs...)
		cas.Events = lsGenEvents(rt, cas.MaxCycles, 12)
		st, sig, err := c04Run(&cas)
		nt := st.Dispatches > 0 || st.PendingAtEI > 0
		class := "program"
		if st.Dispatches > 0 {
			class += "-dispatch"
		}
		if st.PendingAtEI > 0 {
			class += "-ei-with-pending"
		}
		c.Case(class, vf.Hash(cas), nt, func() interface{} { return cas })
		c.Class("end-"+st.End, 1)
		c.Class("dispatches", int64(st.Dispatches))
		c.Class("instructions-executed", int64(st.Instrs))
		if err != nil {
			if !c.Fail("irq", sig, err.Error(), cas) {
				rt.Fatalf("%v", err)
			}
		}
	})
	_ = fmt.Sprint
}
