package checks

import (
	"encoding/json"
	"fmt"
	"sort"
	"testing"

	"pgregory.net/rapid"

	"verifharness/refcpu"
	"verifharness/vf"
)

// C04 — interrupt dispatch, priority, EI/DI/RETI. Oracle: the lock-step
// reference (lockstep_test.go): at every boundary it predicts dispatch or
// instruction from IME (with the one-instruction EI delay), IE and IF; after a
// dispatch it checks vector, 5 cycles, pushed address, IME cleared and exactly
// one IF bit cleared; after an instruction it checks that IF is untouched.

var c04Rig *cpuRig
var c04VecRigs = map[string]*cpuRig{}

func c04Policy() lsPolicy { return lsPolicy{allowIF: true, checkIRQ: true} }

func c04Run(cas *lsCase) (st lsStats, sig string, err error) {
	defer vf.Recover(&sig, &err)
	if len(cas.Vec) > 8 {
		return st, "invalid-case", fmt.Errorf("at most 8 bytes fit at a vector")
	}
	if len(cas.Vec) > 0 {
		key := string(cas.Vec)
		if c04VecRigs[key] == nil {
			c04VecRigs[key] = newLockstepRigROM(lsVecROM(cas.Vec))
		}
		return c04VecRigs[key].lockstep(cas, c04Policy())
	}
	if c04Rig == nil {
		c04Rig = newLockstepRig()
	}
	return c04Rig.lockstep(cas, c04Policy())
}

func init() {
	vf.RegisterReplay("C04/irq", func(raw json.RawMessage) (string, error) {
		var c lsCase
		if err := json.Unmarshal(raw, &c); err != nil {
			return "", err
		}
		_, sig, err := c04Run(&c)
		return sig, err
	})
}

var c04Roms = []struct {
	path    string
	mooneye bool
	frames  int
}{
	{"blargg/cpu_instrs/individual/02-interrupts.gb", false, 300},
	{"mts-20221022-1430-8d742b9/acceptance/intr_timing.gb", true, 300},
	{"mts-20221022-1430-8d742b9/acceptance/ei_sequence.gb", true, 300},
	{"mts-20221022-1430-8d742b9/acceptance/ei_timing.gb", true, 300},
	{"mts-20221022-1430-8d742b9/acceptance/rapid_di_ei.gb", true, 300},
	{"mts-20221022-1430-8d742b9/acceptance/reti_intr_timing.gb", true, 300},
	{"mts-20221022-1430-8d742b9/acceptance/if_ie_registers.gb", true, 300},
	{"mts-20221022-1430-8d742b9/acceptance/reti_timing.gb", true, 300},
}

// c04Follow are the instructions placed at the boundary in the exhaustive sweep.
var c04Follow = [][]byte{{0x00}, {0x3c}, {0xfb}, {0xf3}, {0xd9}, {0x3e, 0x1f, 0xe0, 0x0f}, {0x76}}

func TestC04(t *testing.T) {
	c := vf.New(t, "C04", "(a) every IE (256) x IF (32) x IME (2) at an instruction boundary followed by each of 7 instruction kinds (NOP, INC A, EI, DI, RETI, a write to IF, HALT) and a second request raised at a varying machine cycle; "+
		"(b) rapid programs over EI/DI/RETI/NOP/INC/LD/writes to IF and IE/PUSH/POP/CALL/RET with handlers at the five vectors and interrupt requests raised at arbitrary machine-cycle offsets, in lock-step with the reference (EI delayed by one instruction, DI and RETI immediate); "+
		"(a2) back-to-back re-entry: 5 bits x 6 short handlers x the same request raised again while the handler runs; (c) verdicts of blargg cpu_instrs 02-interrupts and the mooneye intr/ei/reti ROMs. Non-trivial: the history contains a dispatch, or an EI executed with a request pending at the following boundary; distinct by case hash / by (IE, IF, IME, follow) in (a).")
	defer c.Flush()
	c.RunReplays()
	if c.Env.Shard == 0 {
		for _, r := range c04Roms {
			v := romRun(r.path, r.frames, r.mooneye)
			c.Case("rom-verdict", vf.Hash(r.path), true, func() interface{} { return r.path + ": " + v.Verdict })
			c.Extra("rom_"+r.path, v.Verdict)
			if v.Verdict == "fail" || v.Verdict == "panic" {
				if !c.Fail("rom", "rom-failed:"+r.path, r.path+" reports failure: "+v.Text, map[string]string{"rom": r.path}) {
					t.Errorf("%s: %s", r.path, v.Text)
				}
			} else if v.Verdict != "pass" {
				c.Note("%s gave no verdict (%s) — inconclusive", r.path, v.Verdict)
			}
		}
	}
	c04Rig = newLockstepRig()

	c.Sub("ie-if-ime", func(t *testing.T) {
		var n, nt int64
		for ie := 0; ie < 256; ie++ {
			if !c.Env.Mine(ie) {
				continue
			}
			for ifr := 0; ifr < 32; ifr++ {
				for ime := 0; ime < 2; ime++ {
					for fi, fol := range c04Follow {
						cas := lsCase{R: refcpu.Regs{A: 0x11, F: 0x00, B: 0xd4, C: 0x10, D: 0xd5, E: 0x20, H: 0xd6, L: 0x30, SP: 0xdfe0, PC: 0xc000},
							IME: ime == 1, IE: uint8(ie), IF: uint8(ifr), MaxCycles: 40}
						cas.Code = append(append([]byte{}, fol...), 0x3c, 0x00, 0x04, 0x00, 0x00, 0x00, 0x00, 0x00)
						for i := range cas.Handlers {
							cas.Handlers[i] = []byte{0x0c, 0xd9} // INC C; RETI
						}
						cas.Pokes = []cpuPoke{{0xdfe0, 0x02}, {0xdfe1, 0xc0}} // a stray RETI returns into the program
						// a further request somewhere in the first 12 cycles
						cas.Events = []lsEvent{{Cycle: (ie*7 + ifr*3 + fi) % 12, Bit: (ie + ifr + fi) % 5}}
						st, sig, err := c04Run(&cas)
						n++
						if st.Dispatches > 0 || st.PendingAtEI > 0 {
							nt++
						}
						if n%9973 == 1 {
							c.Sample("ie-if-ime", cas)
						}
						if err != nil {
							if known, first := c.FailFirst("irq", sig, err.Error(), cas); !known && first {
								t.Errorf("%v", err)
							}
						}
					}
				}
			}
		}
		c.Bulk("ie-if-ime", n, nt)
		c.Exhaustive("all 256 IE x 32 IF x 2 IME at a boundary x 7 following instruction kinds")
	})

	// back-to-back re-entry: the request is raised again while its (very short) handler runs, so the dispatch that
	// follows the handler's last instruction goes to the vector just left - the same instruction at the same address
	// is fetched twice with nothing but a dispatch in between
	c.Sub("re-entry", func(t *testing.T) {
		handlers := [][]byte{{0xd9}, {0x00, 0xd9}, {0xfb, 0xd9}, {0xfb, 0xc9}, {0xfb, 0x00, 0xc9}, {0x3c, 0xd9}}
		var n, nt int64
		idx := 0
		for bit := 0; bit < 5; bit++ {
			for hi, h := range handlers {
				for e1 := 0; e1 <= 14; e1++ {
					for d := 1; d <= 14; d++ {
						idx++
						if !c.Env.Mine(idx) {
							continue
						}
						cas := lsCase{R: refcpu.Regs{A: 0x11, F: 0x00, B: 0xd4, C: 0x10, D: 0xd5, E: 0x20, H: 0xd6, L: 0x30, SP: 0xdfe0, PC: 0xc000},
							IME: true, IE: 0x1f, IF: 1 << uint(bit), MaxCycles: 70}
						cas.Code = []byte{0x00, 0x3c, 0x00, 0x04, 0x00, 0x3c, 0x00, 0x04, 0x00, 0x00, 0x00, 0x00, 0x00, 0x00, 0x00, 0x00}
						for i := range cas.Handlers {
							cas.Handlers[i] = []byte{0x0c, 0xd9}
						}
						cas.Handlers[bit] = h
						if (e1+d)%2 == 1 {
							cas.Vec = h // the handler itself at the vector: dispatch, X at V, dispatch, X at V ...
						}
						cas.Events = []lsEvent{{Cycle: e1, Bit: bit}, {Cycle: e1 + d, Bit: bit}, {Cycle: e1 + 2*d, Bit: (bit + hi) % 5}}
						st, sig, err := c04Run(&cas)
						n++
						if st.Dispatches >= 2 {
							nt++
						}
						if n%997 == 1 {
							c.Sample("re-entry", cas)
						}
						if err != nil {
							if known, first := c.FailFirst("irq", sig, err.Error(), cas); !known && first {
								t.Errorf("%v", err)
							}
						}
					}
				}
			}
		}
		c.Bulk("re-entry", n, nt)
		c.Exhaustive("5 request bits x 6 short handlers (RETI alone, NOP RETI, EI RETI, EI RET, EI NOP RET, INC A RETI) x the same request raised again at cycle e1 (0-14), e1+d and e1+2d (d 1-14); in half of the cases the handler sits at the vector itself (in the cartridge) instead of behind a JP")
	})

	c.Rapid("programs", 30000, 600000, func(rt *rapid.T) {
		fl := lsFlavour{irq: 14, flow: 3, mem: 2, raw: 1}
		cas := lsCase{R: lsGenRegs(rt), IME: rapid.Bool().Draw(rt, "ime"), IE: rapid.Byte().Draw(rt, "ie"), IF: rapid.Byte().Draw(rt, "if") & 0x1f,
			MaxCycles: rapid.IntRange(30, 400).Draw(rt, "cycles")}
		if rapid.Bool().Draw(rt, "ie-all") {
			cas.IE |= 0x1f
		}
		cas.Code = lsGenCode(rt, fl, 8, 60)
		var subs []cpuPoke
		cas.Handlers, subs = lsGenHandlers(rt, lsFlavour{irq: 10})
		cas.Pokes = append(lsStackFill(rt, len(cas.Code)), subs...)
		cas.Events = lsGenEvents(rt, cas.MaxCycles, 12)
		if rapid.IntRange(0, 4).Draw(rt, "burst") == 0 {
			// one source keeps asking: the same bit every g cycles
			bit, g, at := rapid.IntRange(0, 4).Draw(rt, "burst-bit"), rapid.IntRange(1, 12).Draw(rt, "burst-gap"), rapid.IntRange(0, cas.MaxCycles-1).Draw(rt, "burst-at")
			for i := 0; i < 12 && at < cas.MaxCycles; i, at = i+1, at+g {
				cas.Events = append(cas.Events, lsEvent{Cycle: at, Bit: bit})
			}
			sort.SliceStable(cas.Events, func(i, j int) bool { return cas.Events[i].Cycle < cas.Events[j].Cycle })
			c.Class("program-with-request-burst", 1)
		}
		st, sig, err := c04Run(&cas)
		nt := st.Dispatches > 0 || st.PendingAtEI > 0
		class := "program"
		if st.Dispatches > 0 {
			class += "-dispatch"
		}
		if st.PendingAtEI > 0 {
			class += "-ei-with-pending"
		}
		c.Case(class, vf.Hash(cas), nt, func() interface{} { return cas })
		c.Class("end-"+st.End, 1)
		c.Class("dispatches", int64(st.Dispatches))
		c.Class("instructions-executed", int64(st.Instrs))
		if err != nil {
			if !c.Fail("irq", sig, err.Error(), cas) {
				rt.Fatalf("%v", err)
			}
		}
	})
	_ = fmt.Sprint
}
