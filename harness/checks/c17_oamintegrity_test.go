package checks

import (
	"encoding/hex"
	"encoding/json"
	"fmt"
	"math/rand"
	"runtime/debug"
	"strings"
	"testing"

	"github.com/scottyw/tetromino/gameboy/cpu"
	"pgregory.net/rapid"

	"verifharness/machine"
	"verifharness/refcpu"
	"verifharness/vf"
)

// C17 — OAM is only altered by CPU writes, DMA, or the mode-2 OAM bug.
//
// Reference: OAM is plain memory, changed only by the program's own stores to
// FE00-FE9F (addresses and values from the reference SM83 interpreter). The
// program consists of single instructions of the forms that trigger the DMG
// OAM bug (16-bit INC/DEC, PUSH/POP, LD A,(HL+/-), LD (HL+/-),A, LD r,(rr))
// with the addressed register pair steered through FE00-FEFF. It runs either
// with the LCD off (after the LCD was switched off at a chosen cycle, or at
// power-on), or with the LCD on, every instruction scheduled - by the C13
// line/mode reference - entirely outside mode 2, with a margin of one cycle
// before and two after. OAM is loaded by DMA and inspected only once, at the
// end, with the LCD off, so the harness itself performs no OAM access while a
// program runs.
//
// Don't-care: a store executed while the reference mode is 3 may or may not
// land (OAM is inaccessible to the CPU in mode 3 on hardware; the statement
// only says that OAM changes ONLY through such writes).

type c17Step struct {
	Op   uint8  `json:"op"`
	P    uint16 `json:"p"`              // loaded into the pair the instruction counts / addresses with (BC, DE, HL or SP)
	V    uint16 `json:"v"`              // loaded into the other pairs; A = hi^lo
	Skip int    `json:"skip,omitempty"` // scenario "on": idle machine cycles before the instruction is scheduled
}

type c17Case struct {
	Scen  string    `json:"scen"`  // "off": program runs with the LCD off; "on": LCD on, instructions outside mode 2
	RunOn int       `json:"runon"` // "off": cycles with the LCD on (after a restart) before switching off; -1: switched off at power-on, never on again
	OAM   string    `json:"oam"`   // initial OAM, 160 bytes hex (loaded by DMA with the LCD off)
	Steps []c17Step `json:"steps"`
	// DMA > 0: a second transfer (from D100, the initial OAM bytes reversed and complemented) is started just
	// before step DMA-1, so the instructions after it run while a transfer is in flight; such a program holds
	// no PUSH and no store, so OAM must end up equal to that second source.
	DMA int `json:"dma,omitempty"`
	// Regs (scenario "off"): stores to LCD registers (STAT, SCY, SCX, LY, LYC, palettes, WY, WX) made right after
	// the LCD has been switched off - none of them may arm anything.
	Regs []cpuPoke `json:"regs,omitempty"`
}

// pointer pair of each generated instruction form: 0 BC, 1 DE, 2 HL, 3 SP
var c17Forms = map[uint8]int{
	0x03: 0, 0x13: 1, 0x23: 2, 0x33: 3, // INC rr
	0x0b: 0, 0x1b: 1, 0x2b: 2, 0x3b: 3, // DEC rr
	0xc5: 3, 0xd5: 3, 0xe5: 3, 0xf5: 3, // PUSH
	0xc1: 3, 0xd1: 3, 0xe1: 3, 0xf1: 3, // POP
	0x2a: 2, 0x3a: 2, 0x22: 2, 0x32: 2, // LD A,(HL+/-)  LD (HL+/-),A
	0x0a: 0, 0x1a: 1, // LD A,(BC) LD A,(DE)
	0x46: 2, 0x4e: 2, 0x56: 2, 0x5e: 2, 0x66: 2, 0x6e: 2, 0x7e: 2, // LD r,(HL)
}

var c17OpList = []uint8{0x03, 0x13, 0x23, 0x33, 0x0b, 0x1b, 0x2b, 0x3b, 0xc5, 0xd5, 0xe5, 0xf5, 0xc1, 0xd1, 0xe1, 0xf1,
	0x2a, 0x3a, 0x22, 0x32, 0x0a, 0x1a, 0x46, 0x4e, 0x56, 0x5e, 0x66, 0x6e, 0x7e}

func c17IsPush(op uint8) bool  { return op == 0xc5 || op == 0xd5 || op == 0xe5 || op == 0xf5 }
func c17IsStore(op uint8) bool { return op == 0x22 || op == 0x32 }

// c17PtrRange: pointers stay below the I/O registers so that no store or
// push can reach FF00-FFFF (a write to FF40 would switch the LCD).
func c17PtrRange(op uint8) (lo, hi uint16) {
	switch {
	case c17IsPush(op):
		return 0xfdf2, 0xff00
	case c17IsStore(op):
		return 0xfdf0, 0xfeff
	}
	return 0xfdf0, 0xff00
}

func c17Validate(cas *c17Case) error {
	if cas.Scen != "off" && cas.Scen != "on" {
		return fmt.Errorf("unknown scenario %q", cas.Scen)
	}
	if cas.RunOn < -1 || cas.RunOn > 4*c13Frame {
		return fmt.Errorf("runon %d", cas.RunOn)
	}
	if b, err := hex.DecodeString(cas.OAM); err != nil || len(b) != 160 {
		return fmt.Errorf("oam must be 160 bytes of hex")
	}
	if len(cas.Steps) > 256 {
		return fmt.Errorf("too many steps")
	}
	for _, r := range cas.Regs {
		if r.A < 0xff41 || r.A > 0xff4b || r.A == 0xff46 {
			return fmt.Errorf("register store to %04x is outside the domain", r.A)
		}
	}
	if cas.DMA < 0 || cas.DMA > len(cas.Steps)+1 {
		return fmt.Errorf("dma step %d", cas.DMA)
	}
	if cas.DMA > 0 {
		for i, s := range cas.Steps {
			if c17IsPush(s.Op) || c17IsStore(s.Op) {
				return fmt.Errorf("step %d: a program with a transfer in flight must not store (opcode %02x)", i, s.Op)
			}
		}
	}
	for i, s := range cas.Steps {
		if _, ok := c17Forms[s.Op]; !ok {
			return fmt.Errorf("step %d: opcode %02x is not one of the generated forms", i, s.Op)
		}
		lo, hi := c17PtrRange(s.Op)
		if s.P < lo || s.P > hi {
			return fmt.Errorf("step %d: pointer %04x outside %04x-%04x", i, s.P, lo, hi)
		}
		if s.Skip < 0 || s.Skip > 2*c13Frame {
			return fmt.Errorf("step %d: skip %d", i, s.Skip)
		}
	}
	return nil
}

func c17Regs(s c17Step, pc uint16) refcpu.Regs {
	hi, lo := uint8(s.V>>8), uint8(s.V)
	r := refcpu.Regs{A: hi ^ lo, B: hi, C: lo, D: hi, E: lo, H: hi, L: lo, SP: 0xdff0, PC: pc}
	ph, pl := uint8(s.P>>8), uint8(s.P)
	switch c17Forms[s.Op] {
	case 0:
		r.B, r.C = ph, pl
	case 1:
		r.D, r.E = ph, pl
	case 2:
		r.H, r.L = ph, pl
	case 3:
		r.SP = s.P
	}
	return r
}

// c17Safe: the instruction occupying steps k+1..k+n since switch-on is
// entirely outside mode 2, with one cycle of margin before and two after.
func c17Safe(k, n int) bool {
	for i := k - 1; i <= k+n+2; i++ {
		if i < 0 {
			continue
		}
		if _, mode := c13ObsAt(i); mode == 2 {
			return false
		}
	}
	return true
}

type c17Plan struct {
	OffMode  int    // scenario off: reference mode when the LCD was switched off (2 for power-on)
	OffT     int    // cycle within the line at switch-off
	Modes    [4]int // scenario on: instructions started in mode m
	Mode3St  int    // stores executed (partly) in mode 3
	PtrInOAM int    // instructions whose pointer is in FE00-FEFF
}

// c17Schedule walks the reference alone (no machine): for scenario "on" it
// returns for each step the number of idle cycles actually inserted and
// whether any of its cycles is in mode 3.
func c17Schedule(cas *c17Case) (plan c17Plan, idle []int, mode3 []bool) {
	for _, s := range cas.Steps {
		if s.P >= 0xfe00 && s.P <= 0xfeff {
			plan.PtrInOAM++
		}
	}
	if cas.Scen == "off" {
		plan.OffMode = 2
		if cas.RunOn >= 0 {
			_, m := c13ObsAt(cas.RunOn)
			plan.OffMode = int(m)
			plan.OffT = c13PosAt(cas.RunOn) % c13Line
		}
		return
	}
	k := 0
	for _, s := range cas.Steps {
		r := refcpu.Step(c17Regs(s, 0xc000), func(a uint16) uint8 {
			if a == 0xc000 {
				return s.Op
			}
			return 0
		}, false)
		w := s.Skip
		for !c17Safe(k+w, r.Cycles) {
			w++
		}
		idle = append(idle, w)
		k += w
		_, m0 := c13ObsAt(k)
		plan.Modes[m0]++
		in3 := false
		for i := k; i <= k+r.Cycles; i++ {
			if _, m := c13ObsAt(i); m == 3 {
				in3 = true
			}
		}
		mode3 = append(mode3, in3)
		if in3 && (c17IsPush(s.Op) || c17IsStore(s.Op)) {
			plan.Mode3St++
		}
		k += r.Cycles
	}
	return
}

var c17ROM = machine.MakeROM(0, 0, 0)

// bookkeeping for the evidence: instructions really executed, and programs cut
// short because the CPU was not where the reference expected it (C01/C02's subject)
var c17StatSteps, c17StatDesync int64

type c17Outcome struct {
	bad      []int // OAM offsets whose final value is not allowed
	got      [160]uint8
	allowed  [160][]uint8
	stored   [160]bool
	panicMsg string
	panicOAM bool
	executed int
	desync   string
}

// c17Exec runs the first n steps of the case on a fresh machine.
func c17Exec(cas *c17Case, n int) (out c17Outcome) {
	oam, _ := hex.DecodeString(cas.OAM)
	_, idle, mode3 := c17Schedule(cas)
	m := machine.New(c17ROM, nil, false)
	m.I.Disable()
	m.Mp.Write(0xffff, 0)
	m.Mp.Write(0xff0f, 0)
	m.Mp.Write(0xff40, 0x11) // off at power-on
	var ref c13LCD
	for i := 0; i < len(cas.Steps); i++ {
		m.Mp.Write(0xc000+uint16(i), cas.Steps[i].Op)
	}
	for i, b := range oam {
		m.Mp.Write(0xd000+uint16(i), b)
		m.Mp.Write(0xd100+uint16(i), ^oam[159-i])
		out.allowed[i] = []uint8{b}
	}
	dmaStarted := false
	startDMA := func() {
		m.Mp.Write(0xff46, 0xd1)
		dmaStarted = true
		for i := range oam {
			out.allowed[i] = []uint8{^oam[159-i]}
		}
	}
	m.Mp.Write(0xff46, 0xd0)
	for i := 0; i < 170; i++ {
		m.HW()
	}
	hw := func() {
		m.HW()
		ref.Tick()
	}
	if cas.Scen == "on" || cas.RunOn >= 0 {
		m.Mp.Write(0xff40, 0x91)
		ref.SwitchOn()
	}
	if cas.Scen == "off" && cas.RunOn >= 0 {
		for i := 0; i < cas.RunOn; i++ {
			hw()
		}
		m.Mp.Write(0xff40, 0x11)
		ref.SwitchOff()
	}
	if cas.Scen == "off" {
		for _, r := range cas.Regs {
			m.Mp.Write(r.A, r.V)
		}
	}
	start := m.CPU.VerifGet()
	start.PC = 0xc000
	m.CPU.VerifSet(start)
	func() {
		defer func() {
			if r := recover(); r != nil {
				st := string(debug.Stack())
				out.panicMsg = fmt.Sprintf("%v", r)
				out.panicOAM = strings.Contains(st, "gameboy/oam.")
			}
		}()
		for i := 0; i < n; i++ {
			if cas.DMA == i+1 {
				startDMA()
			}
			s := cas.Steps[i]
			pc := 0xc000 + uint16(i)
			if !m.CPU.VerifAtBoundary() || m.CPU.VerifGet().PC != pc {
				out.desync = fmt.Sprintf("before step %d the CPU is not at an instruction boundary at %04x (PC=%04x)", i, pc, m.CPU.VerifGet().PC)
				return
			}
			if op := m.Mp.Read(pc); refcpu.IsUndefined(op) || op != s.Op {
				out.desync = fmt.Sprintf("opcode at %04x is %02x, placed %02x", pc, op, s.Op)
				return
			}
			regs := c17Regs(s, pc)
			exp := refcpu.Step(regs, func(a uint16) uint8 {
				if a == pc {
					return s.Op
				}
				return 0
			}, false)
			if cas.Scen == "on" {
				for j := 0; j < idle[i]; j++ {
					hw()
				}
			}
			m.CPU.VerifSet(cpu.VerifRegs{A: regs.A, B: regs.B, C: regs.C, D: regs.D, E: regs.E, F: regs.F, H: regs.H, L: regs.L, SP: regs.SP, PC: regs.PC})
			for j := 0; j < exp.Cycles; j++ {
				m.CPU.ExecuteMachineCycle()
				hw()
			}
			out.executed++
			for _, w := range exp.Writes() {
				if w.Addr >= 0xfe00 && w.Addr <= 0xfe9f {
					o := int(w.Addr - 0xfe00)
					out.stored[o] = true
					if cas.Scen == "on" && mode3[i] {
						out.allowed[o] = append(out.allowed[o], w.Val)
					} else {
						out.allowed[o] = []uint8{w.Val}
					}
				}
			}
			if !m.CPU.VerifAtBoundary() {
				// the instruction is longer than the reference says (C02's subject): the
				// schedule no longer holds, end the program here
				for j := 0; j < 8 && !m.CPU.VerifAtBoundary(); j++ {
					m.CPU.ExecuteMachineCycle()
					hw()
				}
				out.desync = fmt.Sprintf("step %d (%02x) took more than %d cycles", i, s.Op, exp.Cycles)
				return
			}
		}
	}()
	c17StatSteps += int64(out.executed)
	if out.desync != "" {
		c17StatDesync++
	}
	if cas.DMA > 0 && out.desync == "" && out.panicMsg == "" && n == len(cas.Steps) {
		if !dmaStarted {
			startDMA()
		}
		func() {
			defer func() {
				if r := recover(); r != nil {
					out.panicMsg = fmt.Sprintf("%v", r)
				}
			}()
			for i := 0; i < 170; i++ { // let the transfer finish (the CPU is not stepped)
				hw()
			}
		}()
	} else if dmaStarted {
		for i := 0; i < 170; i++ {
			hw()
		}
	}
	if ref.On {
		m.Mp.Write(0xff40, 0x11)
	}
	for i := 0; i < 160; i++ {
		out.got[i] = m.Mp.Read(0xfe00 + uint16(i))
		ok := false
		for _, v := range out.allowed[i] {
			ok = ok || v == out.got[i]
		}
		if !ok {
			out.bad = append(out.bad, i)
		}
	}
	return out
}

func c17Run(cas c17Case) (sig string, err error) {
	defer vf.Recover(&sig, &err)
	if e := c17Validate(&cas); e != nil {
		return "invalid-case", e
	}
	out := c17Exec(&cas, len(cas.Steps))
	if len(out.bad) == 0 && out.panicMsg == "" {
		return "", nil
	}
	// which instruction did it? shortest failing prefix
	first := len(cas.Steps)
	for n := 0; n < len(cas.Steps); n++ {
		if o := c17Exec(&cas, n); len(o.bad) > 0 || o.panicMsg != "" {
			first, out = n, o
			break
		}
	}
	plan, idle, _ := c17Schedule(&cas)
	where := "with no instruction executed"
	if first > 0 {
		s := cas.Steps[first-1]
		where = fmt.Sprintf("first after step %d (opcode %02x, pointer %04x)", first-1, s.Op, s.P)
		if cas.Scen == "on" {
			k := 0
			for i := 0; i < first; i++ {
				k += idle[i]
				if i < first-1 {
					k += refcpu.Step(c17Regs(cas.Steps[i], 0xc000), func(a uint16) uint8 {
						if a == 0xc000 {
							return cas.Steps[i].Op
						}
						return 0
					}, false).Cycles
				}
			}
			pos := c13PosAt(k)
			_, md := c13ObsAt(k)
			where += fmt.Sprintf(" started %d cycles after switch-on at line %d cycle %d (mode %d)", k, pos/c13Line, pos%c13Line, md)
		}
	}
	scen := "LCD on, instructions outside mode 2"
	if cas.Scen == "off" {
		scen = fmt.Sprintf("LCD off since power-on (mode 2)")
		if cas.RunOn >= 0 {
			pos := c13PosAt(cas.RunOn)
			scen = fmt.Sprintf("LCD switched off %d cycles after switch-on at line %d cycle %d (mode %d)", cas.RunOn, pos/c13Line, pos%c13Line, plan.OffMode)
		}
	}
	onlyStored := true
	for _, o := range out.bad {
		onlyStored = onlyStored && out.stored[o]
	}
	switch {
	case out.panicMsg != "" && !(out.panicOAM && cas.Scen == "off"):
		sig = "panic"
	case first == 0:
		sig = "oam-altered-without-any-instruction"
	case len(out.bad) > 0 && onlyStored:
		sig = "oam-store-mismatch"
	case cas.Scen == "off" && plan.OffMode == 2:
		// armed by mode 2 and not disarmed by the switch-off - unless the same
		// program also alters OAM after a switch-off in mode 3, 0 or 1
		sig = "oam-corruption-armed-after-lcd-off"
		for _, runOn := range []int{40, 90, 146*c13Line + 7} {
			probe := cas
			probe.RunOn = runOn
			pat := make([]byte, 160) // a non-uniform OAM, so that any row corruption shows
			for i := range pat {
				pat[i] = uint8(i*7 + 3)
			}
			probe.OAM = hex.EncodeToString(pat)
			if o := c17Exec(&probe, len(probe.Steps)); len(o.bad) > 0 || o.panicMsg != "" {
				sig = "oam-altered-lcd-off"
				break
			}
		}
	case cas.Scen == "off":
		sig = "oam-altered-lcd-off"
	default:
		sig = "oam-corrupted-lcd-on-outside-mode2"
	}
	if out.panicMsg != "" {
		return sig, fmt.Errorf("%s: panic %q %s", scen, out.panicMsg, where)
	}
	o := out.bad[0]
	return sig, fmt.Errorf("%s: %d OAM byte(s) altered, %s; first FE%02X = %02x, allowed %02x", scen, len(out.bad), where, o, out.got[o], out.allowed[o])
}

type c17Early struct {
	Op    uint8  `json:"op"`
	Tick  int    `json:"tick"`
	D     int    `json:"d"`
	After string `json:"after"` // "on": the LCD stays on; "off": it is switched off right after the instruction
	P     uint16 `json:"p"`
	Line  int    `json:"line"`
}

func c17RunEarly(c c17Early) (sig string, err error) {
	defer vf.Recover(&sig, &err)
	if _, ok := c17Forms[c.Op]; !ok || c17IsPush(c.Op) || c17IsStore(c.Op) || c.Tick < 5 || c.Tick > 18 || c.D < 1 || c.D > 5 || c.Tick-c.D < 0 || c.P < 0xfe00 || c.P > 0xfe9f || c.Line < 1 || c.Line > 142 {
		return "invalid-case", fmt.Errorf("case outside the domain")
	}
	// the rows the OAM bug may touch (the one being scanned and its two predecessors) must still be ahead of the copy
	if (c.Tick-2)*8 < c.D+8+8 {
		return "", nil
	}
	m := machine.New(c17ROM, nil, false)
	m.I.Disable()
	m.Mp.Write(0xffff, 0)
	m.Mp.Write(0xff40, 0x11)
	var src [160]uint8
	for i := range src {
		src[i] = uint8(i*13 + 7)
		m.Mp.Write(0xd100+uint16(i), src[i])
		m.Mp.Write(0xd000+uint16(i), ^src[i])
	}
	m.Mp.Write(0xff46, 0xd0)
	for i := 0; i < 170; i++ {
		m.HW()
	}
	for i := 0; i < 8; i++ {
		m.Mp.Write(0xc000+uint16(i), 0x00)
	}
	m.Mp.Write(0xc000, c.Op)
	m.Mp.Write(0xc001, 0x18)
	m.Mp.Write(0xc002, 0xfe) // JR -2
	var ref c13LCD
	m.Mp.Write(0xff40, 0x91)
	ref.SwitchOn()
	hw := func() {
		m.HW()
		ref.Tick()
	}
	// idle to the chosen line, D cycles before the chosen tick of its mode 2
	for n := ref.c13StepsTo(c.Line, c.Tick-c.D); n > 0; n-- {
		hw()
	}
	m.Mp.Write(0xff46, 0xd1)
	for i := 0; i < c.D; i++ {
		hw()
	}
	regs := c17Regs(c17Step{Op: c.Op, P: c.P, V: 0x1234}, 0xc000)
	m.CPU.VerifSet(cpu.VerifRegs{A: regs.A, B: regs.B, C: regs.C, D: regs.D, E: regs.E, F: regs.F, H: regs.H, L: regs.L, SP: regs.SP, PC: regs.PC})
	for i := 0; i < 2; i++ {
		m.CPU.ExecuteMachineCycle()
		hw()
	}
	if c.After == "off" {
		m.Mp.Write(0xff40, 0x11)
		ref.SwitchOff()
	}
	for i := 0; i < 400; i++ { // the CPU spins in JR -2 at C001; the transfer ends after 162 cycles
		m.CPU.ExecuteMachineCycle()
		hw()
	}
	if ref.On {
		m.Mp.Write(0xff40, 0x11)
	}
	bad, first := 0, -1
	for i := range src {
		if m.Mp.Read(0xfe00+uint16(i)) != src[i] {
			bad++
			if first < 0 {
				first = i
			}
		}
	}
	if bad > 0 {
		return "oam-altered-after-transfer", fmt.Errorf("opcode %02x with its pair at %04x started in cycle %d of mode 2 on line %d, %d cycles after a DMA transfer began (LCD afterwards %s): 400 cycles later %d OAM byte(s) differ from the transfer's source, first OAM[%d] = %02x, source %02x",
			c.Op, c.P, c.Tick, c.Line, c.D, c.After, bad, first, m.Mp.Read(0xfe00+uint16(first)), src[first])
	}
	return "", nil
}

func init() {
	vf.RegisterReplay("C17/oam-early-dma", func(raw json.RawMessage) (string, error) {
		var c c17Early
		if err := json.Unmarshal(raw, &c); err != nil {
			return "", err
		}
		return c17RunEarly(c)
	})
}

// Two check names (same executor): the LCD-off and the LCD-on campaigns each
// keep their own minimal failing case.
func init() {
	for _, name := range []string{"oam-lcd-off", "oam-lcd-on"} {
		vf.RegisterReplay("C17/"+name, func(raw json.RawMessage) (string, error) {
			var c c17Case
			if err := json.Unmarshal(raw, &c); err != nil {
				return "", err
			}
			return c17Run(c)
		})
	}
}

// ---------------------------------------------------------------------------

func c17ClampPtr(op uint8, p uint16) uint16 {
	lo, hi := c17PtrRange(op)
	if p < lo {
		return lo
	}
	if p > hi {
		return hi
	}
	return p
}

var c17StepGen = rapid.Custom(func(rt *rapid.T) c17Step {
	var s c17Step
	s.Op = c17OpList[rapid.IntRange(0, len(c17OpList)-1).Draw(rt, "op")]
	var p int
	switch rapid.IntRange(0, 5).Draw(rt, "psel") {
	case 0:
		p = []int{0xfdfe, 0xfdff, 0xfe00, 0xfe01, 0xfe02, 0xfe07, 0xfe08, 0xfe9e, 0xfe9f, 0xfea0, 0xfea1, 0xfefe, 0xfeff, 0xff00}[rapid.IntRange(0, 13).Draw(rt, "pedge")]
	case 1:
		p = rapid.IntRange(0xfdf0, 0xff00).Draw(rt, "pany")
	default:
		p = rapid.IntRange(0xfe00, 0xfeff).Draw(rt, "p")
	}
	s.P = c17ClampPtr(s.Op, uint16(p))
	s.V = rapid.Uint16().Draw(rt, "v")
	switch rapid.IntRange(0, 7).Draw(rt, "skipsel") {
	case 0, 1:
		s.Skip = rapid.IntRange(0, c13Frame).Draw(rt, "skipfar")
	case 2:
		s.Skip = 0
	default:
		s.Skip = rapid.IntRange(0, 130).Draw(rt, "skip")
	}
	return s
})

var c17OAMGen = rapid.Custom(func(rt *rapid.T) string {
	return hex.EncodeToString(rapid.SliceOfN(rapid.Byte(), 160, 160).Draw(rt, "oam"))
})

func c17RunOnGen(rt *rapid.T) int {
	switch rapid.IntRange(0, 7).Draw(rt, "runonsel") {
	case 0:
		return -1
	case 1, 2:
		return rapid.IntRange(0, 113).Draw(rt, "firstline")
	}
	line := rapid.IntRange(0, 153).Draw(rt, "line")
	if rapid.IntRange(0, 2).Draw(rt, "seam") == 0 {
		line = []int{0, 1, 143, 144, 153}[rapid.IntRange(0, 4).Draw(rt, "seamline")]
	}
	var l c13LCD
	l.SwitchOn()
	n := l.c13StepsTo(line, rapid.IntRange(0, 113).Draw(rt, "t"))
	return n + rapid.IntRange(0, 1).Draw(rt, "frame")*c13Frame
}

// c17MaybeDMA turns a quarter of the cases into programs that run while a transfer is in flight.
func c17MaybeDMA(rt *rapid.T, cas *c17Case) {
	if rapid.IntRange(0, 3).Draw(rt, "dma-in-flight") != 0 {
		return
	}
	kept := cas.Steps[:0]
	for _, s := range cas.Steps {
		if !c17IsPush(s.Op) && !c17IsStore(s.Op) {
			if s.Skip > 60 {
				s.Skip %= 60 // keep the instructions inside the 162 cycles of the transfer
			}
			kept = append(kept, s)
		}
	}
	cas.Steps = kept
	cas.DMA = 1 + rapid.IntRange(0, len(cas.Steps)).Draw(rt, "dma-step")
	if cas.DMA > 3 {
		cas.DMA = 1 + (cas.DMA-1)%3
	}
}

func c17Classify(c *vf.Collector, cas *c17Case) bool {
	plan, _, _ := c17Schedule(cas)
	if cas.DMA > 0 {
		c.Class("transfer-in-flight", 1)
	}
	if len(cas.Regs) > 0 {
		c.Class("off/lcd-register-stores-after-switch-off", 1)
	}
	if cas.Scen == "off" {
		if cas.RunOn < 0 {
			c.Class("off/poweron-then-off", 1)
		} else {
			c.Class(fmt.Sprintf("off/switched-off-in-mode%d", plan.OffMode), 1)
		}
	} else {
		for md, n := range plan.Modes {
			if n > 0 {
				c.Class(fmt.Sprintf("on/instructions-started-in-mode%d", md), int64(n))
			}
		}
		if plan.Mode3St > 0 {
			c.Class("on/stores-in-mode3-dont-care", int64(plan.Mode3St))
		}
	}
	c.Class("instructions-with-pointer-in-FE00-FEFF", int64(plan.PtrInOAM))
	return plan.PtrInOAM > 0
}

func TestC17(t *testing.T) {
	c := vf.New(t, "C17", "programs of single instructions (INC/DEC rr, PUSH/POP, LD A,(HL+/-), LD (HL+/-),A, LD A,(BC)/(DE), LD r,(HL)) with the addressed pair steered through FDF0-FF00 (mostly FE00-FEFF), random initial OAM loaded by DMA; "+
		"sweep: LCD switched off at every cycle of the first line and of selected lines (thorough: every line) in every mode, and at power-on, then a seeded program of 16 instructions runs with the LCD off; "+
		"rapid 'lcd-off': random switch-off point and program; rapid 'lcd-on': every instruction scheduled by the reference LCD counter entirely outside mode 2 (margin 1 before / 2 after) after a random idle gap. "+
		"A quarter of the rapid programs hold no store and run while a second DMA transfer is in flight (OAM must then equal that transfer's source). OAM is read once at the end with the LCD off and must equal the plain-memory model (stores in mode 3: either value). Non-trivial: >= 1 instruction whose pointer is in FE00-FEFF when it executes. Distinct = hash of the case.")
	defer c.Flush()
	defer func() {
		c.Class("instructions-executed", c17StatSteps)
		c.Class("programs-cut-short-by-cpu-desync", c17StatDesync)
	}()
	c.RunReplays()

	c.Sub("off-sweep", func(t *testing.T) {
		lines := []int{0, 1, 77, 143, 144, 153}
		if c.Env.Thorough() {
			lines = lines[:0]
			for i := 0; i < 154; i++ {
				lines = append(lines, i)
			}
		}
		type pt struct{ runOn int }
		pts := []pt{{-1}}
		for k := 0; k <= 112; k++ {
			pts = append(pts, pt{k}) // first (short) line after switch-on, incl. the switch-on instant
		}
		for _, line := range lines {
			for tt := 0; tt < c13Line; tt++ {
				var l c13LCD
				l.SwitchOn()
				l.K = 200 // past the first line
				pts = append(pts, pt{200 + l.c13StepsTo(line, tt)})
			}
		}
		var n, nt int64
		bad := 0
		for idx, p := range pts {
			if !c.Env.Mine(idx) {
				continue
			}
			rnd := rand.New(rand.NewSource(c.Env.RandSeed(17)*31 + int64(idx)))
			oam := make([]byte, 160)
			rnd.Read(oam)
			cas := c17Case{Scen: "off", RunOn: p.runOn, OAM: hex.EncodeToString(oam)}
			for i := 0; i < 16; i++ {
				op := c17OpList[rnd.Intn(len(c17OpList))]
				ptr := uint16(0xfe00 + rnd.Intn(0x100))
				if rnd.Intn(8) == 0 {
					ptr = uint16(0xfdf0 + rnd.Intn(0x111))
				}
				cas.Steps = append(cas.Steps, c17Step{Op: op, P: c17ClampPtr(op, ptr), V: uint16(rnd.Intn(0x10000))})
			}
			plan, _, _ := c17Schedule(&cas)
			n++
			if plan.PtrInOAM > 0 {
				nt++
			}
			if p.runOn < 0 {
				c.Class("sweep/poweron-then-off", 1)
			} else {
				c.Class(fmt.Sprintf("sweep/switched-off-in-mode%d", plan.OffMode), 1)
			}
			if idx%61 == 0 {
				c.Sample("sweep", cas)
			}
			sig, err := c17Run(cas)
			if err != nil && !c.Fail("oam-lcd-off", sig, err.Error(), cas) {
				bad++
				if bad == 1 {
					t.Errorf("%v", err)
				}
				if bad > 20 {
					return
				}
			}
		}
		c.Bulk("sweep", n, nt)
		c.Exhaustive(fmt.Sprintf("LCD switched off at power-on, at each of the 113 instants of the first line after switch-on and at each of the 114 cycles of %d steady-state line(s), followed by a seeded 16-instruction program (partitioned across shards)", len(lines)))
	})

	// A pointer instruction executed in mode 2 while a DMA transfer has only just begun: whatever the OAM bug
	// does to the row being scanned is overwritten by the rest of the transfer, so OAM must equal the source in
	// the end - unless something was left pending and fires after the transfer, outside mode 2.
	c.Sub("mode2-during-early-dma", func(t *testing.T) {
		var n int64
		idx := 0
		for _, op := range []uint8{0x03, 0x13, 0x23, 0x33, 0x0b, 0x1b, 0x2b, 0x3b} {
			for tick := 5; tick <= 18; tick++ { // machine cycle of mode 2 in which the instruction starts (row scanned = tick)
				for d := 1; d <= 5; d++ { // cycles between the FF46 write and the instruction
					for _, after := range []string{"on", "off"} {
						idx++
						if !c.Env.Mine(idx) {
							continue
						}
						cas := c17Early{Op: op, Tick: tick, D: d, After: after, P: uint16(0xfe00 + (idx*37)%0xa0), Line: 1 + idx%140}
						sig, err := c17RunEarly(cas)
						n++
						if idx%97 == 0 {
							c.Sample("mode2-during-early-dma", cas)
						}
						if err != nil {
							if known, first := c.FailFirst("oam-early-dma", sig, err.Error(), cas); !known && first {
								t.Errorf("%v", err)
							}
						}
					}
				}
			}
		}
		c.Bulk("mode2-during-early-dma", n, n)
		c.Exhaustive("16-bit INC/DEC of BC, DE, HL, SP with the pair in OAM, started in cycle 5-18 of a mode 2, 1-5 cycles after a DMA transfer was started, the LCD then left on or switched off; OAM compared with the transfer's source 400 cycles later")
	})

	// the program itself lies in OAM: opcode fetches are OAM reads; OAM watched after every machine cycle
	c.Rapid("code-in-oam", 8000, 300000, func(rt *rapid.T) {
		cas := c17CodeGen.Draw(rt, "case")
		sig, err, fired, in2 := c17RunCode(cas)
		switch {
		case !cas.LCDOn:
			c.Class("code-in-oam/lcd-off", 1)
		case fired > 0:
			c.Class("code-in-oam/oam-bug-fired-in-mode2", 1)
		case in2 > 0:
			c.Class("code-in-oam/fetches-in-mode2-left-oam-unchanged", 1)
		default:
			c.Class("code-in-oam/no-mode2-reached", 1)
		}
		c.Case("code-in-oam", vf.Hash(cas), in2 > 0 || !cas.LCDOn, func() interface{} { return cas })
		if err != nil && !c.Fail("code-in-oam", sig, err.Error(), cas) {
			rt.Fatalf("%s: %v", sig, err)
		}
	})

	c.Rapid("lcd-off", 16000, 600000, func(rt *rapid.T) {
		cas := c17Case{Scen: "off", RunOn: c17RunOnGen(rt), OAM: c17OAMGen.Draw(rt, "oam"), Steps: rapid.SliceOfN(c17StepGen, 1, 40).Draw(rt, "steps")}
		for i := range cas.Steps {
			cas.Steps[i].Skip = 0
		}
		if rapid.IntRange(0, 2).Draw(rt, "regs") == 0 {
			cas.Regs = rapid.SliceOfN(rapid.Custom(func(rt *rapid.T) cpuPoke {
				return cpuPoke{rapid.SampledFrom([]uint16{0xff44, 0xff44, 0xff41, 0xff45, 0xff42, 0xff43, 0xff47, 0xff48, 0xff49, 0xff4a, 0xff4b}).Draw(rt, "ra"), rapid.Byte().Draw(rt, "rv")}
			}), 1, 4).Draw(rt, "regstores")
		}
		c17MaybeDMA(rt, &cas)
		nt := c17Classify(c, &cas)
		c.Case("lcd-off", vf.Hash(cas), nt, func() interface{} { return cas })
		sig, err := c17Run(cas)
		if err != nil && !c.Fail("oam-lcd-off", sig, err.Error(), cas) {
			rt.Fatalf("%s: %v", sig, err)
		}
	})

	c.Rapid("lcd-on", 16000, 600000, func(rt *rapid.T) {
		cas := c17Case{Scen: "on", RunOn: 0, OAM: c17OAMGen.Draw(rt, "oam"), Steps: rapid.SliceOfN(c17StepGen, 1, 40).Draw(rt, "steps")}
		c17MaybeDMA(rt, &cas)
		nt := c17Classify(c, &cas)
		c.Case("lcd-on", vf.Hash(cas), nt, func() interface{} { return cas })
		sig, err := c17Run(cas)
		if err != nil && !c.Fail("oam-lcd-on", sig, err.Error(), cas) {
			rt.Fatalf("%s: %v", sig, err)
		}
	})
}
