package checks

import (
	"encoding/json"
	"fmt"
	"testing"

	"pgregory.net/rapid"

	"verifharness/refcpu"
	"verifharness/vf"
)

// C03 — each data access happens in its documented machine cycle.
//
// Reads: for every candidate cycle j one run in which all addresses the
// reference says are read hold X only during machine cycle j and ^X during
// every other cycle; the reference is run with a memory that returns X for a
// read whose documented cycle is j and ^X otherwise. A read performed in any
// other cycle consumes the wrong value in at least one of the runs.
// Writes: memory is snapshotted after every cycle; the first cycle in which a
// target byte holds the written value must be the documented one.

type c03Case struct {
	C cpuCase `json:"instr"`
	X uint8   `json:"x"`
	// Pre, when not empty, is a conditional jump / call / return executed immediately before the measured
	// instruction (placed just below it, no other instruction in between) that leaves every register as it is:
	// JR cc,+0 and JP cc,next (taken or not), CALL cc / RET cc with a condition that is false for the case's flags.
	Pre []byte `json:"pre,omitempty"`
}

func c03CondFalse(cc, f uint8) bool {
	switch cc & 3 {
	case 0:
		return f&0x80 != 0 // NZ
	case 1:
		return f&0x80 == 0 // Z
	case 2:
		return f&0x10 != 0 // NC
	}
	return f&0x10 == 0 // C
}

func c03PreValid(cc *c03Case) bool {
	p, pc := cc.Pre, cc.C.R.PC
	switch {
	case len(p) == 0:
		return true
	case pc < 0xc004:
		return false
	case len(p) == 2 && p[0]&0xe7 == 0x20 && p[1] == 0:
		return true
	case len(p) == 3 && p[0]&0xe7 == 0xc2 && p[1] == uint8(pc) && p[2] == uint8(pc>>8):
		return true
	case len(p) == 3 && p[0]&0xe7 == 0xc4:
		return c03CondFalse(p[0]>>3, cc.C.R.F)
	case len(p) == 1 && p[0]&0xe7 == 0xc0:
		return c03CondFalse(p[0]>>3, cc.C.R.F)
	}
	return false
}

var c03PreDesync int64

// c03Prep: the CPU at the measured instruction with the case's registers - directly (after the rig's flush NOP),
// or by way of the predecessor. ok=false: the predecessor itself misbehaved (C01's subject), skip the case.
func c03Prep(rg *cpuRig, cc *c03Case) (ok bool, err error) {
	if len(cc.Pre) == 0 {
		return true, rg.prep(cc.C.R, false)
	}
	m := rg.m
	start := cc.C.R
	start.PC -= uint16(len(cc.Pre))
	for i, b := range cc.Pre {
		m.Mp.Write(start.PC+uint16(i), b)
	}
	if e := rg.prep(start, false); e != nil {
		return false, e
	}
	rg.exec(10, nil, nil)
	if !m.CPU.VerifAtBoundary() || cpuFromHook(m.CPU.VerifGet()) != cc.C.R {
		c03PreDesync++
		return false, nil
	}
	return true, nil
}

func c03Safe(a uint16) bool {
	return a >= 0xc800 && a < 0xdffc || a >= 0xe800 && a < 0xfdf0 || a >= 0xff80 && a < 0xfff0
}

// c03Run returns the access list it validated.
func c03Run(rg *cpuRig, cc *c03Case) (nReads, nWrites int, sig string, err error) {
	defer vf.Recover(&sig, &err)
	m := rg.m
	c := &cc.C
	name := cpuOpName(c.Code)
	if !c03PreValid(cc) {
		return 0, 0, "invalid-case", fmt.Errorf("predecessor % x is not one of the register-preserving forms for this case", cc.Pre)
	}
	rg.load(c)
	dry := refcpu.Step(c.R, m.Mp.Read, false)
	if dry.Undefined || dry.Halt || dry.Stop {
		return 0, 0, "", nil
	}
	if len(cc.Pre) > 0 {
		name += fmt.Sprintf(" straight after % x", cc.Pre)
	}
	var reads []refcpu.Access
	for _, a := range dry.Acc {
		if !c03Safe(a.Addr) || cpuCanon(a.Addr)-cpuCanon(c.R.PC) < 4 || cpuCanon(c.R.PC)-cpuCanon(a.Addr) < 4 {
			return 0, 0, "harness", fmt.Errorf("harness: access %04x outside the safe operand area (op %s)", a.Addr, name)
		}
		if !a.Write {
			reads = append(reads, a)
		}
	}
	x, y := cc.X, ^cc.X
	if len(reads) > 0 {
		for j := 1; j <= dry.Cycles; j++ {
			exp := refcpu.Step(c.R, func(a uint16) uint8 {
				for _, r := range reads {
					if r.Addr == a {
						if r.Cycle == j {
							return x
						}
						return y
					}
				}
				return m.Mp.Read(a)
			}, false)
			if ok, e := c03Prep(rg, cc); e != nil {
				return 0, 0, "rig-boundary", e
			} else if !ok {
				return 0, 0, "", nil
			}
			obs := rg.exec(10, func(k int) {
				v := y
				if k == j {
					v = x
				}
				for _, r := range reads {
					m.Mp.Write(r.Addr, v)
				}
			}, nil)
			if obs.R != exp.R {
				return 0, 0, "read-timing-" + name, fmt.Errorf("instruction %s (code % x): with the operand byte(s) at %v holding %02x only during machine cycle %d (and %02x otherwise) the result is %+v, but a read in the documented cycle gives %+v", name, c.Code, c03Addrs(reads), x, j, y, obs.R, exp.R)
			}
			for _, w := range exp.Writes() {
				if v := m.Mp.Read(w.Addr); v != cpuLastWrite(exp, w.Addr) {
					return 0, 0, "read-timing-" + name, fmt.Errorf("instruction %s (code % x): hot cycle %d: wrote mem[%04x]=%02x, a read in the documented cycle gives %02x", name, c.Code, j, w.Addr, v, cpuLastWrite(exp, w.Addr))
				}
			}
		}
	}
	ws := dry.Writes()
	if len(ws) > 0 {
		// constant memory; make sure every written value differs from what is there
		rg.load(c)
		for _, r := range reads {
			m.Mp.Write(r.Addr, x)
		}
		exp := refcpu.Step(c.R, m.Mp.Read, false)
		usable := true
		for _, w := range exp.Writes() {
			if m.Mp.Read(w.Addr) == w.Val {
				// try the complementary pre-fill (only for pure writes; a read-modify-write changes its value anyway)
				isRead := false
				for _, r := range reads {
					if r.Addr == w.Addr {
						isRead = true
					}
				}
				if isRead {
					usable = false
				} else {
					m.Mp.Write(w.Addr, ^w.Val)
				}
			}
		}
		if usable {
			exp = refcpu.Step(c.R, m.Mp.Read, false)
			if ok, e := c03Prep(rg, cc); e != nil {
				return 0, 0, "rig-boundary", e
			} else if !ok {
				return 0, 0, "", nil
			}
			seen := map[uint16]int{}
			rg.exec(10, nil, func(k int) {
				for _, w := range exp.Writes() {
					if _, ok := seen[w.Addr]; !ok && m.Mp.Read(w.Addr) == w.Val {
						seen[w.Addr] = k
					}
				}
			})
			for _, w := range exp.Writes() {
				if seen[w.Addr] != w.Cycle {
					return 0, 0, "write-timing-" + name, fmt.Errorf("instruction %s (code % x): mem[%04x] was written in machine cycle %d, documented cycle is %d", name, c.Code, w.Addr, seen[w.Addr], w.Cycle)
				}
			}
		} else {
			ws = nil
		}
	}
	return len(reads), len(ws), "", nil
}

func c03Addrs(rs []refcpu.Access) []string {
	var s []string
	for _, r := range rs {
		s = append(s, fmt.Sprintf("%04x(c%d)", r.Addr, r.Cycle))
	}
	return s
}

var c03Rig *cpuRig

func init() {
	vf.RegisterReplay("C03/access", func(raw json.RawMessage) (string, error) {
		var c c03Case
		if err := json.Unmarshal(raw, &c); err != nil {
			return "", err
		}
		if c03Rig == nil {
			c03Rig = newLockstepRig()
		}
		_, _, sig, err := c03Run(c03Rig, &c)
		return sig, err
	})
}

func c03Ptr(rt *rapid.T, label string) uint16 {
	switch rapid.IntRange(0, 3).Draw(rt, label+"-kind") {
	case 0:
		return uint16(rapid.IntRange(0xc800, 0xdff0).Draw(rt, label))
	case 1:
		return uint16(rapid.IntRange(0xe800, 0xfde0).Draw(rt, label))
	case 2:
		return uint16(rapid.IntRange(0xd0, 0xde).Draw(rt, label+"-page"))<<8 | uint16(rapid.SampledFrom([]int{0x00, 0x01, 0xfe, 0xff}).Draw(rt, label+"-edge"))
	default:
		return uint16(rapid.IntRange(0xff84, 0xffe8).Draw(rt, label))
	}
}

func c03Gen(rt *rapid.T, ops []int) c03Case {
	opi := rapid.SampledFrom(ops).Draw(rt, "opcode")
	var code []byte
	if opi < 256 {
		code = []byte{uint8(opi), rapid.Byte().Draw(rt, "imm1"), rapid.Byte().Draw(rt, "imm2")}
	} else {
		code = []byte{0xcb, uint8(opi - 256)}
	}
	r := refcpu.Regs{A: rapid.Byte().Draw(rt, "a"), F: rapid.Byte().Draw(rt, "f") & 0xf0, PC: uint16(rapid.IntRange(0xc000, 0xc7f0).Draw(rt, "pc"))}
	hl, bc, de := c03Ptr(rt, "hl"), c03Ptr(rt, "bc"), c03Ptr(rt, "de")
	r.H, r.L, r.B, r.C, r.D, r.E = uint8(hl>>8), uint8(hl), uint8(bc>>8), uint8(bc), uint8(de>>8), uint8(de)
	r.SP = uint16(rapid.IntRange(0xd802, 0xdff0).Draw(rt, "sp"))
	switch code[0] {
	case 0xe0, 0xf0:
		code[1] = uint8(rapid.IntRange(0x84, 0xe8).Draw(rt, "ldh-n"))
	case 0xe2, 0xf2:
		r.C = uint8(rapid.IntRange(0x84, 0xe8).Draw(rt, "ldh-c"))
	case 0x08, 0xea, 0xfa:
		a := uint16(rapid.IntRange(0xd000, 0xdff0).Draw(rt, "nn"))
		code[1], code[2] = uint8(a), uint8(a>>8)
	}
	cas := c03Case{C: cpuCase{R: r, Code: code}, X: rapid.Byte().Draw(rt, "x")}
	if r.PC >= 0xc004 && rapid.IntRange(0, 2).Draw(rt, "with-predecessor") == 0 {
		cc := uint8(rapid.IntRange(0, 3).Draw(rt, "pre-cc"))
		falseCC := uint8(0) // a condition that does not hold for these flags
		for k := uint8(0); k < 4; k++ {
			if c03CondFalse((cc+k)&3, r.F) {
				falseCC = (cc + k) & 3
				break
			}
		}
		switch rapid.IntRange(0, 3).Draw(rt, "pre-kind") {
		case 0:
			cas.Pre = []byte{0x20 | cc<<3, 0x00}
		case 1:
			cas.Pre = []byte{0xc2 | cc<<3, uint8(r.PC), uint8(r.PC >> 8)}
		case 2:
			cas.Pre = []byte{0xc4 | falseCC<<3, 0x00, 0xc0}
		default:
			cas.Pre = []byte{0xc0 | falseCC<<3}
		}
	}
	return cas
}

// c03MemOps lists the opcodes (0-255 base, 256-511 CB) for which the reference predicts a data access for some flag state.
func c03MemOps() []int {
	var ops []int
	for opi := 0; opi < 512; opi++ {
		if opi < 256 && (refcpu.IsUndefined(uint8(opi)) || opi == 0xcb || opi == 0x76 || opi == 0x10) {
			continue
		}
		found := false
		for _, f := range []uint8{0x00, 0xf0} {
			r := refcpu.Regs{F: f, H: 0xd1, L: 0x23, B: 0xd3, C: 0x90, D: 0xd5, E: 0x67, SP: 0xdf00, PC: 0xc100}
			code := []byte{uint8(opi), 0x90, 0xd2}
			if opi >= 256 {
				code = []byte{0xcb, uint8(opi - 256), 0}
			}
			res := refcpu.Step(r, func(a uint16) uint8 {
				if a >= 0xc100 && a < 0xc103 {
					return code[a-0xc100]
				}
				return 0
			}, false)
			if len(res.Acc) > 0 {
				found = true
			}
		}
		if found {
			ops = append(ops, opi)
		}
	}
	return ops
}

func TestC03(t *testing.T) {
	c := vf.New(t, "C03", "every opcode for which the reference predicts a data access (through HL, BC, DE, nn, FF00+n, FF00+C or SP; taken conditional CALL/RET, RST, all CB (HL) forms) x rapid-drawn plain-memory operand addresses, registers and marker byte X. "+
		"Reads: one run per candidate machine cycle j with the operand bytes holding X only during cycle j (one-hot), compared with the reference reading X exactly in the documented cycle; writes: target bytes snapshotted after every cycle. "+
		"In a third of the cases the measured instruction is executed straight after a conditional jump, call or return that leaves the registers alone (no instruction in between). Non-trivial: the case performed at least one data access; distinct = (opcode, number of reads, number of writes, taken?) classes plus case hash.")
	defer c.Flush()
	c.RunReplays()
	if c.Env.Shard == 0 {
		for _, rom := range []string{"blargg/mem_timing/mem_timing.gb", "blargg/mem_timing-2/mem_timing.gb"} {
			v := romRun(rom, 400, false)
			c.Case("rom-verdict", vf.Hash(rom), true, func() interface{} { return rom + ": " + v.Verdict })
			c.Extra("rom_"+rom, map[string]interface{}{"verdict": v.Verdict, "frames": v.Frames, "text": v.Text})
			if v.Verdict == "fail" || v.Verdict == "panic" {
				if !c.Fail("rom", "rom-mem-timing-failed", rom+" reports: "+v.Text, map[string]string{"rom": rom}) {
					t.Errorf("%s: %s", rom, v.Text)
				}
			} else if v.Verdict != "pass" {
				c.Note("%s gave no verdict (%s) — inconclusive", rom, v.Verdict)
			}
		}
	}
	rg := newLockstepRig()
	c03Rig = rg
	ops := c03MemOps()
	c.Extra("memory_accessing_opcodes", len(ops))
	covered := map[string]bool{}
	c.Rapid("one-hot", 60000, 1500000, func(rt *rapid.T) {
		cas := c03Gen(rt, ops)
		nr, nw, sig, err := c03Run(rg, &cas)
		if sig == "harness" {
			// pointer pair aliases the code or leaves the operand area: replace by fixed safe pointers (construction, not rejection)
			cas.C.R.H, cas.C.R.L, cas.C.R.B, cas.C.R.D, cas.C.R.E, cas.C.R.SP = 0xd1, 0x23, 0xd3, 0xd5, 0x67, 0xdf00
			if cas.C.Code[0] != 0xe2 && cas.C.Code[0] != 0xf2 {
				cas.C.R.C = 0x45
			}
			nr, nw, sig, err = c03Run(rg, &cas)
		}
		name := cpuOpName(cas.C.Code)
		class := fmt.Sprintf("reads%d-writes%d", nr, nw)
		if len(cas.Pre) > 0 {
			c.Class("straight-after-a-conditional-jump-call-or-return", 1)
		}
		c.Case(class, vf.Hash(cas), nr+nw > 0, func() interface{} { return cas })
		if nr+nw > 0 && !covered[name] {
			covered[name] = true
			c.Class("distinct-opcodes-with-validated-access-in-shard", 1)
		}
		if err != nil {
			if !c.Fail("access", sig, err.Error(), cas) {
				rt.Fatalf("%v", err)
			}
		}
	})
}
