package checks

import (
	"bytes"
	"context"
	"crypto/sha256"
	"encoding/hex"
	"encoding/json"
	"fmt"
	"io"
	"os"
	"os/exec"
	"path/filepath"
	"sync"
	"testing"

	"github.com/go-gl/gl/v2.1/gl"
	"github.com/go-gl/glfw/v3.1/glfw"
	"github.com/gordonklaus/portaudio"

	"github.com/scottyw/tetromino/gameboy"
	"github.com/scottyw/tetromino/gameboy/audio"
	"github.com/scottyw/tetromino/gameboy/controller"
	"github.com/scottyw/tetromino/gameboy/cpu"
	"github.com/scottyw/tetromino/gameboy/interrupts"
	"github.com/scottyw/tetromino/gameboy/memory"
	"github.com/scottyw/tetromino/gameboy/ppu"
	"github.com/scottyw/tetromino/gameboy/timer"

	"verifharness/machine"
	"verifharness/refcpu"
	"verifharness/vf"
)

// Whole-system support shared by C24 (determinism), C25 (instance
// independence) and C26 (frame loop): a snapshot of everything an instance
// exposes, construction of real gameboy.Gameboy instances against the fake
// display/audio back ends, an audio consumer, input schedules, the pre-flight
// that keeps runFrame away from undefined opcodes (which call os.Exit), and
// execution of a case in a child process of the same test binary.

// ---------------------------------------------------------------------------
// snapshots

type sysParts struct {
	cpu *cpu.CPU
	mp  *memory.Mapper
	p   *ppu.PPU
	t   *timer.Timer
	i   *interrupts.Interrupts
	a   *audio.Audio
	c   *controller.Controller
}

func sysPartsOfM(m *machine.M) sysParts {
	return sysParts{m.CPU, m.Mp, m.P, m.T, m.I, m.A, m.C}
}

func sysPartsOfGB(g *gameboy.Gameboy) sysParts {
	return sysParts{g.VerifCPU(), g.VerifMapper(), g.VerifPPU(), g.VerifTimer(), g.VerifInterrupts(), g.VerifAudio(), g.VerifController()}
}

type sysSection struct {
	Name string
	Data []byte
}

// sysSnapshot reads everything observable without side effects. OAM is read
// through the address decoder only outside mode 2 (a mode-2 read arms the OAM
// bug); the frame image carries its visible effect in any case.
func sysSnapshot(s sysParts) []sysSection {
	var out []sysSection
	add := func(name string, b []byte) { out = append(out, sysSection{name, b}) }
	if s.cpu != nil {
		r := s.cpu.VerifGet()
		fl := byte(0)
		if s.cpu.VerifHalted() {
			fl |= 1
		}
		if s.cpu.VerifHaltbug() {
			fl |= 2
		}
		if s.cpu.VerifStopped() {
			fl |= 4
		}
		if s.cpu.VerifAtBoundary() {
			fl |= 8
		}
		if s.i.Enabled() {
			fl |= 16
		}
		add("cpu(a,b,c,d,e,f,h,l,sp,pc,flags[halted,haltbug,stopped,boundary,ime])", []byte{r.A, r.B, r.C, r.D, r.E, r.F, r.H, r.L, byte(r.SP >> 8), byte(r.SP), byte(r.PC >> 8), byte(r.PC), fl})
	}
	rd := func(lo, hi int) []byte {
		b := make([]byte, 0, hi-lo+1)
		for a := lo; a <= hi; a++ {
			b = append(b, s.mp.Read(uint16(a)))
		}
		return b
	}
	add("if,ie", []byte{s.mp.Read(0xff0f), s.mp.Read(0xffff)})
	cn := s.t.VerifCounter()
	add("timer(counter,tima,tma,tac)", []byte{byte(cn >> 8), byte(cn), s.mp.Read(0xff05), s.mp.Read(0xff06), s.mp.Read(0xff07)})
	add("joyp,sb,sc", rd(0xff00, 0xff02))
	add("lcd(ff40-ff4b)", rd(0xff40, 0xff4b))
	add("sound(ff10-ff3f)", rd(0xff10, 0xff3f))
	if s.a != nil {
		l := s.a.VerifLFSR()
		add("wave-state(duty1,duty2,wavepos,lfsr)", []byte{s.a.VerifDuty(1), s.a.VerifDuty(2), s.a.VerifWavePos(), byte(l >> 8), byte(l)})
	}
	vr := make([]byte, 0x2000)
	for a := 0; a < 0x2000; a++ {
		vr[a] = s.p.ReadVideoRAM(uint16(0x8000 + a))
	}
	add("vram", vr)
	add("wram", rd(0xc000, 0xdfff))
	add("hram", rd(0xff80, 0xfffe))
	lcdc, stat := s.mp.Read(0xff40), s.mp.Read(0xff41)
	if lcdc&0x80 == 0 || stat&3 != 2 {
		add("oam", rd(0xfe00, 0xfe9f))
	} else {
		add("oam", nil)
	}
	add("rom-windows(0000,3fff,4000,7fff)", []byte{s.mp.Read(0), s.mp.Read(0x3fff), s.mp.Read(0x4000), s.mp.Read(0x7fff), s.mp.Read(0x4100), s.mp.Read(0x7ffe)})
	add("cart-ram", append([]byte(nil), s.mp.DumpRAM()...))
	rt := s.mp.VerifRTCGet()
	b := []byte{rt.S, rt.M, rt.H, byte(rt.D >> 8), byte(rt.D), 0, byte(rt.Ticks >> 16), byte(rt.Ticks >> 8), byte(rt.Ticks)}
	if rt.Carry {
		b[5] |= 1
	}
	if rt.Halt {
		b[5] |= 2
	}
	add("rtc(s,m,h,d,flags,ticks)", b)
	add("frame", append([]byte(nil), s.p.Frame().Pix...))
	return out
}

func sysDigest(sec []sysSection) string {
	h := sha256.New()
	for _, s := range sec {
		fmt.Fprintf(h, "%s:%d:", s.Name, len(s.Data))
		h.Write(s.Data)
	}
	return hex.EncodeToString(h.Sum(nil)[:12])
}

// sysDiff names the first difference between two snapshots ("" if none).
func sysDiff(a, b []sysSection) string {
	if len(a) != len(b) {
		return fmt.Sprintf("snapshots have %d and %d sections", len(a), len(b))
	}
	for i := range a {
		if a[i].Name != b[i].Name {
			return fmt.Sprintf("section %d is %q vs %q", i, a[i].Name, b[i].Name)
		}
		if len(a[i].Data) != len(b[i].Data) {
			return fmt.Sprintf("%s: length %d vs %d", a[i].Name, len(a[i].Data), len(b[i].Data))
		}
		for k := range a[i].Data {
			if a[i].Data[k] != b[i].Data[k] {
				lo, hi := k-2, k+6
				if lo < 0 {
					lo = 0
				}
				if hi > len(a[i].Data) {
					hi = len(a[i].Data)
				}
				n := 0
				for j := range a[i].Data {
					if a[i].Data[j] != b[i].Data[j] {
						n++
					}
				}
				return fmt.Sprintf("%s: first difference at offset %d (bytes %d..%d: % x vs % x), %d byte(s) differ in the section", a[i].Name, k, lo, hi-1, a[i].Data[lo:hi], b[i].Data[lo:hi], n)
			}
		}
	}
	return ""
}

// ---------------------------------------------------------------------------
// cases

type sysInput struct {
	Frame  int  `json:"frame"` // applied after this many frames have completed
	Button int  `json:"button"`
	Press  bool `json:"press"`
}

type sysCase struct {
	File   string     `json:"file,omitempty"`  // ROM under /repo/gameboy/testdata
	Image  *c11Spec   `json:"image,omitempty"` // or a generated image
	Video  bool       `json:"video"`
	Audio  bool       `json:"audio"`
	Frames int        `json:"frames"`
	Inputs []sysInput `json:"inputs,omitempty"`
	// DebugLCD: the instance is configured with gameboy.Config.DebugLCD (256x256 picture, objects and window
	// highlighted); a property of that instance alone
	DebugLCD bool `json:"debug_lcd,omitempty"`
}

func (c sysCase) rom() ([]byte, error) {
	if c.Image != nil {
		return c11Build(*c.Image), nil
	}
	b, err := os.ReadFile(romDir + c.File)
	if err != nil {
		return nil, err
	}
	if len(b) == 0 {
		return nil, fmt.Errorf("empty ROM file %s", c.File)
	}
	return b, nil
}

var sysKeys = []glfw.Key{glfw.KeyRight, glfw.KeyLeft, glfw.KeyUp, glfw.KeyDown, glfw.KeyX, glfw.KeyZ, glfw.KeyS, glfw.KeyA}
var sysButtons = []controller.Button{controller.Right, controller.Left, controller.Up, controller.Down, controller.A, controller.B, controller.Select, controller.Start}

var sysMu sync.Mutex // the fake back ends have process-wide state

// sysRomFile writes an image where gameboy.New can load it from.
func sysRomFile(rom []byte) string {
	dir := os.Getenv("VERIF_WORK")
	if dir == "" {
		dir = filepath.Join(vf.GetEnv().Root, ".work", "adhoc")
	}
	dir = filepath.Join(dir, "roms")
	os.MkdirAll(dir, 0o755)
	sum := sha256.Sum256(rom)
	p := filepath.Join(dir, hex.EncodeToString(sum[:8])+fmt.Sprintf("-%d.gb", os.Getpid()))
	if _, err := os.Stat(p); err != nil {
		os.WriteFile(p, rom, 0o644)
	}
	return p
}

// sysGB is a real gameboy.Gameboy with the harness's handles on its outside world.
type sysGB struct {
	G       *gameboy.Gameboy
	Serial  *bytes.Buffer
	Window  *glfw.Window
	Stream  *portaudio.Stream
	samples  []float32
	done     chan struct{}
	stop     chan struct{}
	unclosed bool
	path     string
}

func sysNewGB(rom []byte, video, withAudio bool, w io.Writer) (g *sysGB, err error) {
	return sysNewGBCfg(rom, video, withAudio, w, false)
}

func sysNewGBCfg(rom []byte, video, withAudio bool, w io.Writer, debugLCD bool) (g *sysGB, err error) {
	defer func() {
		if r := recover(); r != nil {
			g, err = nil, fmt.Errorf("construction panicked: %v", r)
		}
	}()
	sysMu.Lock()
	defer sysMu.Unlock()
	g = &sysGB{Serial: &bytes.Buffer{}, path: sysRomFile(rom)}
	if w == nil {
		w = g.Serial
	}
	nStreams := len(portaudio.Streams)
	g.G = gameboy.New(gameboy.Config{RomFilename: g.path, DisableVideoOutput: !video, DisableAudioOutput: !withAudio, SerialWriter: w, DebugLCD: debugLCD})
	if video {
		g.Window = glfw.Current
	}
	if withAudio {
		if len(portaudio.Streams) != nStreams+1 {
			return nil, fmt.Errorf("audio enabled but no stream was opened")
		}
		g.Stream = portaudio.Streams[len(portaudio.Streams)-1]
	}
	return g, nil
}

// consume starts the harness's audio consumer: it takes left and right
// samples alternately straight from the speaker channels (as the PortAudio
// callback would) until they are closed, so the sample list is exact. Once
// told to stop (finish) it only drains what is already buffered; if the
// channels turn out not to be closed it records that instead of waiting.
func (g *sysGB) consume() {
	sp := g.G.VerifSpeakers()
	if sp == nil {
		return
	}
	g.done = make(chan struct{})
	g.stop = make(chan struct{})
	l, r := sp.Left(), sp.Right()
	go func() {
		defer close(g.done)
		stopping := false
		next := func(ch chan float32) (float32, bool) {
			if !stopping {
				select {
				case v, ok := <-ch:
					return v, ok
				case <-g.stop:
					stopping = true
				}
			}
			select {
			case v, ok := <-ch:
				return v, ok
			default:
				g.unclosed = true // the emulator has stopped, nothing is buffered, and the channel is still open
				return 0, false
			}
		}
		for {
			a, ok := next(l)
			if !ok {
				return
			}
			b, ok := next(r)
			if !ok {
				return
			}
			g.samples = append(g.samples, a, b)
		}
	}()
}

// finish releases the instance and returns every sample it produced. It never
// blocks: g.unclosed tells whether Cleanup left the speaker channels open.
func (g *sysGB) finish() []float32 {
	g.G.Cleanup()
	if g.done != nil {
		close(g.stop)
		<-g.done
	}
	os.Remove(g.path)
	return g.samples
}

func (g *sysGB) applyInput(in sysInput) {
	if g.Window != nil {
		a := glfw.Release
		if in.Press {
			a = glfw.Press
		}
		g.Window.Inject(sysKeys[in.Button&7], a)
		return
	}
	g.G.VerifController().ButtonAction(sysButtons[in.Button&7], in.Press)
	g.G.VerifCPU().OnInput()
}

func sysApplyInputM(m *machine.M, in sysInput) {
	m.C.ButtonAction(sysButtons[in.Button&7], in.Press)
	m.CPU.OnInput()
}

// sysPreflight runs the image on the peeking machine and returns how many
// whole frames can be run before an undefined opcode would be executed.
func sysPreflight(rom []byte, frames int, inputs []sysInput) (ok int, err error) {
	defer func() {
		if r := recover(); r != nil {
			err = fmt.Errorf("pre-flight panicked: %v", r)
		}
	}()
	m := machine.New(rom, nil, false)
	for f := 0; f < frames; f++ {
		for _, in := range inputs {
			if in.Frame == f {
				sysApplyInputM(m, in)
			}
		}
		for i := 0; i < 17556; i++ {
			if m.CPU.VerifAtBoundary() && !m.CPU.VerifHalted() && !m.CPU.VerifStopped() {
				if refcpu.IsUndefined(m.Mp.Read(m.CPU.VerifGet().PC)) {
					return f, nil
				}
			}
			m.Cycle()
		}
	}
	return frames, nil
}

// sysTrace is what one execution of a case produces.
type sysTrace struct {
	Frames  []string `json:"frames"` // digest after every frame
	Samples string   `json:"samples"`
	NSample int      `json:"n_samples"`
	Serial  string   `json:"serial"`
	Final   string   `json:"final"`
	Err     string   `json:"err,omitempty"`
}

func sysHashFloats(s []float32) string {
	h := sha256.New()
	var b [4]byte
	for _, v := range s {
		u := uint32(0)
		if v == v {
			u = uint32(int32(v * 1e6))
		} else {
			u = 0xffffffff
		}
		b[0], b[1], b[2], b[3] = byte(u>>24), byte(u>>16), byte(u>>8), byte(u)
		h.Write(b[:])
	}
	return hex.EncodeToString(h.Sum(nil)[:12])
}

// sysRunGB executes a case through gameboy.New and runFrame. keep, when not
// nil, receives the snapshot after every frame.
func sysRunGB(c sysCase, keep func(frame int, snap []sysSection)) (tr sysTrace) {
	rom, err := c.rom()
	if err != nil {
		tr.Err = err.Error()
		return
	}
	g, err := sysNewGBCfg(rom, c.Video, c.Audio, nil, c.DebugLCD)
	if err != nil {
		tr.Err = err.Error()
		return
	}
	defer func() {
		if r := recover(); r != nil {
			tr.Err = fmt.Sprintf("panic: %v", r)
		}
	}()
	g.consume()
	ctx := context.Background()
	for f := 0; f < c.Frames; f++ {
		for _, in := range c.Inputs {
			if in.Frame == f {
				g.applyInput(in)
			}
		}
		g.G.VerifRunFrame(ctx)
		snap := sysSnapshot(sysPartsOfGB(g.G))
		tr.Frames = append(tr.Frames, sysDigest(snap))
		if keep != nil {
			keep(f, snap)
		}
	}
	tr.Final = sysDigest(sysSnapshot(sysPartsOfGB(g.G)))
	s := g.finish()
	tr.Samples, tr.NSample = sysHashFloats(s), len(s)
	tr.Serial = sysSerialSig(g.Serial.Bytes())
	return
}

func sysSerialSig(b []byte) string {
	sum := sha256.Sum256(b)
	return fmt.Sprintf("%d:%s", len(b), hex.EncodeToString(sum[:8]))
}

func sysTraceDiff(a, b sysTrace) string {
	if a.Err != b.Err {
		return fmt.Sprintf("outcome %q vs %q", a.Err, b.Err)
	}
	if len(a.Frames) != len(b.Frames) {
		return fmt.Sprintf("%d vs %d frames", len(a.Frames), len(b.Frames))
	}
	for i := range a.Frames {
		if a.Frames[i] != b.Frames[i] {
			return fmt.Sprintf("state digest after frame %d differs (%s vs %s)", i+1, a.Frames[i], b.Frames[i])
		}
	}
	if a.NSample != b.NSample || a.Samples != b.Samples {
		return fmt.Sprintf("audio samples differ (%d/%s vs %d/%s)", a.NSample, a.Samples, b.NSample, b.Samples)
	}
	if a.Serial != b.Serial {
		return fmt.Sprintf("serial output differs (%s vs %s)", a.Serial, b.Serial)
	}
	if a.Final != b.Final {
		return "final state differs"
	}
	return ""
}

// ---------------------------------------------------------------------------
// child processes

// sysSpawn runs TestXxx of this test binary in a fresh process, handing it
// spec (JSON, path in the environment variable env) and reading out back.
func sysSpawn(test, env string, spec, out interface{}) error {
	dir := os.Getenv("VERIF_WORK")
	if dir == "" {
		dir = filepath.Join(vf.GetEnv().Root, ".work", "adhoc")
	}
	os.MkdirAll(dir, 0o755)
	f, err := os.CreateTemp(dir, "child-*.json")
	if err != nil {
		return err
	}
	path := f.Name()
	defer os.Remove(path)
	defer os.Remove(path + ".out")
	b, _ := json.Marshal(spec)
	f.Write(b)
	f.Close()
	cmd := exec.Command(os.Args[0], "-test.run", "^"+test+"$", "-test.timeout", "900s")
	cmd.Env = append(os.Environ(), env+"="+path, "VERIF_OUT=", "VERIF_SHARD=0/1")
	o, rerr := cmd.CombinedOutput()
	ob, oerr := os.ReadFile(path + ".out")
	if oerr != nil {
		return fmt.Errorf("child process produced no result (%v): %s", rerr, sysTail(string(o)))
	}
	return json.Unmarshal(ob, out)
}

// sysChildOut is how the child side of sysSpawn hands its result back.
func sysChildOut(specPath string, v interface{}) {
	ob, _ := json.Marshal(v)
	os.WriteFile(specPath+".out.tmp", ob, 0o644)
	os.Rename(specPath+".out.tmp", specPath+".out")
}

// sysChild runs a case in a fresh process of this test binary.
func sysChild(c sysCase) (tr sysTrace, err error) {
	err = sysSpawn("TestSysChild", "VERIF_CHILD_SPEC", c, &tr)
	return
}

func sysTail(s string) string {
	if len(s) > 400 {
		s = s[len(s)-400:]
	}
	return s
}

// TestSysChild is the child side of sysChild.
func TestSysChild(t *testing.T) {
	spec := os.Getenv("VERIF_CHILD_SPEC")
	if spec == "" {
		t.Skip("not a child")
	}
	b, err := os.ReadFile(spec)
	if err != nil {
		t.Fatal(err)
	}
	var c sysCase
	if err := json.Unmarshal(b, &c); err != nil {
		t.Fatal(err)
	}
	sysChildOut(spec, sysRunGB(c, nil))
}

var _ = gl.Frames
