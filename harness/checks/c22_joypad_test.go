package checks

import (
	"encoding/json"
	"fmt"
	"testing"

	"github.com/scottyw/tetromino/gameboy/controller"
	"github.com/scottyw/tetromino/gameboy/memory"
	"pgregory.net/rapid"

	"verifharness/machine"
	"verifharness/vf"
)

// C22 — JOYP reflects held buttons for the selected groups.
//
// Reference model (Pan Docs "Joypad input"): bits 6-7 read 1, bits 4-5 read as
// written, low nibble = AND of the line masks of every selected group.

type joyEvent struct {
	Kind   string `json:"k"` // "press" | "release" | "write"
	Button int    `json:"b,omitempty"`
	Value  uint8  `json:"v,omitempty"`
}

type joyCase struct {
	Events []joyEvent `json:"events"`
}

type joyModel struct {
	sel  uint8 // bits 4-5 as written
	dirs uint8 // held directions, bit0 Right, bit1 Left, bit2 Up, bit3 Down
	btns uint8 // held buttons, bit0 A, bit1 B, bit2 Select, bit3 Start
}

var joyButtons = []struct {
	b     controller.Button
	isDir bool
	bit   uint8
	opp   uint8
	name  string
}{
	{controller.Right, true, 0x1, 0x2, "Right"},
	{controller.Left, true, 0x2, 0x1, "Left"},
	{controller.Up, true, 0x4, 0x8, "Up"},
	{controller.Down, true, 0x8, 0x4, "Down"},
	{controller.A, false, 0x1, 0, "A"},
	{controller.B, false, 0x2, 0, "B"},
	{controller.Select, false, 0x4, 0, "Select"},
	{controller.Start, false, 0x8, 0, "Start"},
}

func (m *joyModel) apply(e joyEvent) {
	switch e.Kind {
	case "write":
		m.sel = e.Value & 0x30
	case "press":
		b := joyButtons[e.Button]
		if b.isDir {
			m.dirs |= b.bit
			m.dirs &^= b.opp
		} else {
			m.btns |= b.bit
		}
	case "release":
		b := joyButtons[e.Button]
		if b.isDir {
			m.dirs &^= b.bit
		} else {
			m.btns &^= b.bit
		}
	}
}

func (m *joyModel) read() uint8 {
	low := uint8(0x0f)
	if m.sel&0x10 == 0 {
		low &^= m.dirs
	}
	if m.sel&0x20 == 0 {
		low &^= m.btns
	}
	return 0xc0 | m.sel | low
}

func (m joyModel) key() int { return int(m.sel>>4)<<8 | int(m.dirs)<<4 | int(m.btns) }

var joyROM = machine.MakeROM(0, 0, 0)
var joyShared *machine.M

// joyHW returns a fresh controller behind a fresh address decoder; the other
// components (which JOYP does not involve) are shared between cases to keep
// 157 k constructions cheap.
func joyHW() *machine.M {
	if joyShared == nil {
		joyShared = machine.NewHW(joyROM, nil, false)
	}
	m := *joyShared
	m.C = controller.New()
	m.Mp = memory.New(joyROM, m.I, m.O, m.P, m.C, m.S, m.T, m.A)
	return &m
}

// runJoyCase drives a fresh controller behind a fresh address decoder and
// compares FF00 after every event.
func runJoyCase(c joyCase) (sig string, err error) {
	defer vf.Recover(&sig, &err)
	hw := joyHW()
	var m joyModel
	// power-on: tetromino starts with joyp=0x0f (both groups selected, nothing held)
	if got := hw.Mp.Read(0xff00); got != m.read() {
		return "poweron", fmt.Errorf("power-on JOYP=%02x want %02x", got, m.read())
	}
	for i, e := range c.Events {
		switch e.Kind {
		case "write":
			hw.Mp.Write(0xff00, e.Value)
		case "press":
			hw.C.ButtonAction(joyButtons[e.Button].b, true)
		case "release":
			hw.C.ButtonAction(joyButtons[e.Button].b, false)
		}
		m.apply(e)
		got, want := hw.Mp.Read(0xff00), m.read()
		if got != want {
			sig = "joyp-mismatch"
			if m.sel == 0 {
				sig = "joyp-both-groups-selected"
			}
			return sig, fmt.Errorf("after event %d (%+v): JOYP=%02x want %02x (select=%02x held dirs=%x buttons=%x)", i, e, got, want, m.sel, m.dirs, m.btns)
		}
	}
	return "", nil
}

func init() {
	vf.RegisterReplay("C22/joypad", func(raw json.RawMessage) (string, error) {
		var c joyCase
		if err := json.Unmarshal(raw, &c); err != nil {
			return "", err
		}
		return runJoyCase(c)
	})
}

func allJoyEvents() []joyEvent {
	var evs []joyEvent
	for b := 0; b < 8; b++ {
		evs = append(evs, joyEvent{Kind: "press", Button: b}, joyEvent{Kind: "release", Button: b})
	}
	for v := 0; v < 256; v++ {
		evs = append(evs, joyEvent{Kind: "write", Value: uint8(v)})
	}
	return evs
}

func TestC22(t *testing.T) {
	c := vf.New(t, "C22", "breadth-first enumeration of the reference controller's reachable states (select bits x held directions x held buttons); "+
		"every state x every one of the 16 press/release events and 256 JOYP writes is driven on a fresh controller along the BFS path and FF00 compared after every event; "+
		"plus rapid random event sequences. Non-trivial: the transition's read-back differs from the power-on value CF... (some button held in a selected group, or select bits changed). Distinct = (state, event).")
	defer c.Flush()
	c.RunReplays()

	evs := allJoyEvents()
	// BFS over the model
	type node struct {
		m    joyModel
		path []joyEvent
	}
	start := joyModel{}
	seen := map[int]bool{start.key(): true}
	queue := []node{{m: start}}
	var states []node
	for len(queue) > 0 {
		n := queue[0]
		queue = queue[1:]
		states = append(states, n)
		for _, e := range evs {
			m2 := n.m
			m2.apply(e)
			if !seen[m2.key()] {
				seen[m2.key()] = true
				p := append(append([]joyEvent{}, n.path...), e)
				queue = append(queue, node{m2, p})
			}
		}
	}
	c.Extra("model_states", len(states))
	c.Sub("bfs", func(t *testing.T) {
		var trans, nontriv int64
		failed := false
		for si, n := range states {
			if !c.Env.Mine(si) {
				continue
			}
			for _, e := range evs {
				cas := joyCase{Events: append(append([]joyEvent{}, n.path...), e)}
				m2 := n.m
				m2.apply(e)
				trans++
				if m2.read() != 0xcf {
					nontriv++
				}
				if trans%5000 == 1 {
					c.Sample("bfs-transition", cas)
				}
				sig, err := runJoyCase(cas)
				if err != nil {
					if !c.Fail("joypad", sig, err.Error(), cas) && !failed {
						failed = true
						t.Errorf("%v", err)
					}
				}
			}
		}
		c.Bulk("bfs-transition", trans, nontriv)
		if c.Env.NShards == 1 || true {
			c.Exhaustive(fmt.Sprintf("all %d reachable model states x %d events (partitioned across shards)", len(states), len(evs)))
		}
	})

	c.Rapid("random", 4000, 100000, func(rt *rapid.T) {
		evGen := rapid.Custom(func(rt *rapid.T) joyEvent {
			switch rapid.IntRange(0, 2).Draw(rt, "kind") {
			case 0:
				return joyEvent{Kind: "press", Button: rapid.IntRange(0, 7).Draw(rt, "b")}
			case 1:
				return joyEvent{Kind: "release", Button: rapid.IntRange(0, 7).Draw(rt, "b")}
			default:
				return joyEvent{Kind: "write", Value: rapid.Byte().Draw(rt, "v")}
			}
		})
		cas := joyCase{Events: rapid.SliceOfN(evGen, 1, 200).Draw(rt, "events")}
		var m joyModel
		nt := false
		for _, e := range cas.Events {
			m.apply(e)
			if m.read()&0x0f != 0x0f {
				nt = true
			}
		}
		c.Case("random-sequence", vf.Hash(cas), nt, func() interface{} { return cas })
		sig, err := runJoyCase(cas)
		if err != nil {
			if !c.Fail("joypad", sig, err.Error(), cas) {
				rt.Fatalf("%v", err)
			}
		}
	})
}
