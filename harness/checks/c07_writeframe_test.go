package checks

import (
	"encoding/json"
	"fmt"
	"sort"
	"testing"

	"github.com/scottyw/tetromino/gameboy/controller"
	"pgregory.net/rapid"

	"verifharness/machine"
	"verifharness/vf"
)

// C07 — a write changes only the state documented for its address.
//
// Frame condition: the whole address space is read before and after one
// Mapper.Write (no cycle elapses in between); every address whose value
// changed must be in allowed(addr), a table written from the statement and the
// register documentation (Pan Docs):
//
//	0000-7FFF  cartridge control: the ROM windows 0000-7FFF and the RAM window A000-BFFF
//	A000-BFFF  the address and its controller-defined aliases (MBC2: every 0x200, 2 KiB parts: every 0x800,
//	           MBC3 with something other than a RAM bank selected: the window)
//	C000-DDFF  the address and its echo at +0x2000; E000-FDFF: the address and -0x2000
//	FF04 DIV   FF04, FF05      FF06 TMA   FF06, FF05     FF07 TAC   FF07, FF05
//	FF40 LCDC  FF40, FF41, FF44            FF45 LYC  FF45, FF41
//	FF46 DMA   FF46 and FE00-FEFF          FF26 NR52 FF10-FF3F
//	NR10, NRx2, NR30, NRx4: the register and FF26 (channel 3: also FF30-FF3F); FF30-FF3F: FF30-FF3F
//	anything else: the address itself
//
// Reads are side-effect free here: no CPU runs, so nothing consumes the OAM
// access flags. Windows whose contents other properties leave undefined in
// the current cartridge state (ROM-only A000-BFFF, MBC3 with a selection that
// is neither a RAM bank 0-7 nor a clock register) are left out of the snapshot.

type c07W struct {
	A uint16 `json:"a"`
	V uint8  `json:"v"`
}

type c07Case struct {
	State   string `json:"state"` // label only
	Cart    uint8  `json:"cart"`
	RomSize uint8  `json:"romsize"`
	RamSize uint8  `json:"ramsize"`
	Pre     []c07W `json:"pre"`    // writes that build the machine state from power-on
	Run     int    `json:"run"`    // hardware cycles after the preamble (at least 170 when the preamble touches FF46)
	Writes  []c07W `json:"writes"` // the writes under test, checked one by one
	Keys    []int  `json:"keys,omitempty"` // buttons held down (controller.Button values) when the writes are made
}

type c07State struct {
	name                   string
	cart, romSize, ramSize uint8
	pre                    []c07W
	run                    int
	keys                   []int
}

var c07APURunning = []c07W{{0xff26, 0x80}, {0xff25, 0xff}, {0xff24, 0x77}, {0xff12, 0xf0}, {0xff14, 0x80}, {0xff17, 0xf0}, {0xff19, 0x80},
	{0xff1a, 0x80}, {0xff1c, 0x20}, {0xff1e, 0x80}, {0xff21, 0xf0}, {0xff23, 0x80}}

func c07Cat(ws ...[]c07W) []c07W {
	var out []c07W
	for _, w := range ws {
		out = append(out, w...)
	}
	return out
}

var c07States = []c07State{
	{"rom-only/lcd-on/power-on", 0x00, 0, 0, nil, 700, nil},
	{"mbc1/ram-on-mode1/lcd-off", 0x03, 2, 3, []c07W{{0x0000, 0x0a}, {0x4000, 0x01}, {0x6000, 0x01}, {0xa010, 0x33}, {0xff40, 0x11}, {0x8000, 0x12}, {0xfe00, 0x34}, {0xc000, 0x56}}, 1000, nil},
	{"mbc1/lcd-on/apu-running/timer-running", 0x03, 2, 3, c07Cat([]c07W{{0x0000, 0x0a}, {0xff06, 0xf0}, {0xff07, 0x05}, {0xff41, 0x78}, {0xff45, 0x20}}, c07APURunning), 1500, nil},
	{"mbc2/ram-on/lcd-off/apu-off", 0x06, 1, 0, []c07W{{0x0000, 0x0a}, {0x2100, 0x03}, {0xa000, 0x05}, {0xff40, 0x00}, {0xff26, 0x00}}, 500, nil},
	{"mbc3/ram-bank-2/lcd-on/sweep", 0x10, 6, 4, []c07W{{0x0000, 0x0a}, {0x4000, 0x02}, {0x2000, 0x05}, {0xa000, 0x77}, {0xff10, 0x79}, {0xff12, 0xf0}, {0xff13, 0x00}, {0xff14, 0x87}, {0xff41, 0x40}, {0xff45, 0x40}}, 1200, nil},
	{"mbc5/ram-on/lcd-off/length-counters", 0x1b, 2, 3, []c07W{{0x0000, 0x0a}, {0x4000, 0x03}, {0x2000, 0x07}, {0xff40, 0x11}, {0xff11, 0x3f}, {0xff12, 0xf0}, {0xff14, 0xc0}, {0xff20, 0x3f}, {0xff21, 0xf1}, {0xff23, 0xc0}}, 2000, nil},
	{"mbc3/clock-register-selected/lcd-off", 0x10, 6, 4, []c07W{{0x0000, 0x0a}, {0x4000, 0x08}, {0x6000, 0x00}, {0x6000, 0x01}, {0xff40, 0x00}}, 300, nil},
	{"mbc1/lcd-off/all-stat-sources/lyc-eq-ly", 0x03, 2, 3, []c07W{{0x0000, 0x0a}, {0xff41, 0x78}, {0xff45, 0x00}, {0xff40, 0x11}, {0xff0f, 0x00}}, 3100, nil},
	{"rom-only/lcd-on/stat-sources/lyc-reached/odd-sequencer-step/lengths-at-1", 0x00, 0, 0, []c07W{{0xff41, 0x78}, {0xff45, 0x16}, {0xff26, 0x80}, {0xff25, 0xff}, {0xff11, 0x3f}, {0xff12, 0xf0}, {0xff14, 0x80},
		{0xff16, 0x3f}, {0xff17, 0xf0}, {0xff19, 0x80}, {0xff1a, 0x80}, {0xff1b, 0xff}, {0xff1c, 0x20}, {0xff1e, 0x80}, {0xff20, 0x3f}, {0xff21, 0xf0}, {0xff23, 0x80}}, 2600, nil},
	{"mbc5/lcd-on-line-0/odd-sequencer-step/timer-about-to-overflow", 0x1b, 2, 3, c07Cat([]c07W{{0x0000, 0x0a}, {0xff06, 0xfe}, {0xff05, 0xff}, {0xff07, 0x05}, {0xff41, 0x40}, {0xff45, 0x00}}, c07APURunning), 17556 + 2050, nil},
	{"mbc1/lcd-on/ch1-upward-sweep-armed-just-below-overflow/wave-playing", 0x03, 2, 3, []c07W{{0xff26, 0x80}, {0xff25, 0xff}, {0xff24, 0x77}, {0xff12, 0xf0}, {0xff10, 0x17}, {0xff13, 0x00}, {0xff14, 0x87},
		{0xff1a, 0x80}, {0xff1c, 0x20}, {0xff1d, 0x00}, {0xff1e, 0x87}}, 1025, nil},
	{"rom-only/lcd-on/buttons-held-with-no-group-selected", 0x00, 0, 0, []c07W{{0xff00, 0x30}, {0xff0f, 0x00}, {0xffff, 0x1f}}, 900, []int{4, 3, 6}},
	{"mbc1/2k-ram/lcd-off/wave-running", 0x03, 1, 1, []c07W{{0x0000, 0x0a}, {0xa000, 0x99}, {0xff40, 0x00}, {0xff1a, 0x80}, {0xff1c, 0x40}, {0xff1d, 0x00}, {0xff1e, 0x87}}, 777, nil},
}

func c07KindOf(cart uint8) int {
	switch {
	case cart == 0x00:
		return 0
	case cart >= 0x01 && cart <= 0x03:
		return 1
	case cart == 0x05 || cart == 0x06:
		return 2
	case cart >= 0x0f && cart <= 0x13:
		return 3
	case cart >= 0x19 && cart <= 0x1e:
		return 5
	}
	return -1
}

// c07Cart tracks just enough of the cartridge to know which windows are
// defined and which aliases a RAM write has.
type c07Cart struct {
	kind    int
	ramSize uint8
	en      bool
	sel     int
}

func (k *c07Cart) write(a uint16, v uint8) {
	switch {
	case k.kind == 2 && a < 0x4000 && a&0x0100 == 0, k.kind != 2 && a < 0x2000:
		k.en = v&0x0f == 0x0a
	case a >= 0x4000 && a < 0x6000:
		k.sel = int(v)
	}
}

// ramDefined: may the snapshot read A000-BFFF?
func (k *c07Cart) ramDefined() bool {
	switch k.kind {
	case 0:
		return false
	case 3:
		return !k.en || k.sel <= 0x0c
	}
	return true
}

func c07Region(a uint16) string {
	switch {
	case a < 0x8000:
		return "rom"
	case a < 0xa000:
		return "vram"
	case a < 0xc000:
		return "cartram"
	case a < 0xe000:
		return "wram"
	case a < 0xfe00:
		return "echo"
	case a < 0xfea0:
		return "oam"
	case a < 0xff00:
		return "fea0"
	case a < 0xff80:
		return fmt.Sprintf("%04x", a)
	case a < 0xffff:
		return "hram"
	}
	return "ffff"
}

// c07Allowed reports whether a write to a may change what x reads.
// c07Allowed returns the bits of location x that a write to a may change
// (0: none). Status registers are bit-granular: LCDC and LYC writes may move
// only the mode/coincidence bits of STAT, and a sound channel's envelope,
// trigger, sweep and DAC registers only that channel's status bit in NR52.
func c07Allowed(k *c07Cart, a, x uint16) uint8 {
	all := func(ok bool) uint8 {
		if ok {
			return 0xff
		}
		return 0
	}
	if x == a {
		return 0xff
	}
	inRAM := x >= 0xa000 && x < 0xc000
	switch {
	case a < 0x8000:
		return all(x < 0x8000 || inRAM)
	case a < 0xa000:
		return 0
	case a < 0xc000:
		if !inRAM {
			return 0
		}
		d := int(x) - int(a)
		if d < 0 {
			d = -d
		}
		switch {
		case k.kind == 2:
			return all(d%0x200 == 0)
		case k.kind == 3 && k.sel >= 8:
			return 0xff
		case k.ramSize == 1:
			return all(d%0x800 == 0)
		}
		return 0
	case a < 0xde00:
		return all(x == a+0x2000)
	case a < 0xe000:
		return 0
	case a < 0xfe00:
		return all(x == a-0x2000)
	case a < 0xff00:
		return 0
	}
	wave := x >= 0xff30 && x <= 0xff3f
	status := func(bit uint8) uint8 {
		if x == 0xff26 {
			return bit
		}
		return 0
	}
	switch a {
	case 0xff04, 0xff06, 0xff07:
		return all(x == 0xff05)
	case 0xff40:
		if x == 0xff41 {
			return 0x07
		}
		return all(x == 0xff44)
	case 0xff45:
		if x == 0xff41 {
			return 0x04
		}
		return 0
	case 0xff46:
		return all(x >= 0xfe00 && x < 0xff00)
	case 0xff26:
		return all(x >= 0xff10 && x <= 0xff3f)
	case 0xff10, 0xff12, 0xff14:
		return status(0x01)
	case 0xff17, 0xff19:
		return status(0x02)
	case 0xff21, 0xff23:
		return status(0x08)
	case 0xff1a, 0xff1e:
		if wave {
			return 0xff
		}
		return status(0x04)
	}
	if a >= 0xff30 && a <= 0xff3f {
		return all(wave)
	}
	return 0
}

var c07ROMs = map[[3]uint8][]byte{}

func c07ROM(cart, romSize, ramSize uint8) []byte {
	key := [3]uint8{cart, romSize, ramSize}
	rom, ok := c07ROMs[key]
	if !ok {
		rom = machine.MakeROM(cart, romSize, ramSize)
		c07ROMs[key] = rom
	}
	return rom
}

type c07Snap struct {
	mem    [0x10000]uint8
	hasRAM bool
}

func c07Take(hw *machine.M, k *c07Cart, s *c07Snap) {
	mp := hw.Mp
	s.hasRAM = k.ramDefined()
	for a := 0; a < 0x10000; a++ {
		if a >= 0xa000 && a < 0xc000 && !s.hasRAM {
			continue
		}
		s.mem[a] = mp.Read(uint16(a))
	}
}

type c07Stats struct {
	Writes  int
	Changed int // writes after which at least one location read differently
}

func c07Run(c c07Case) (string, error) {
	sig, err, _ := c07RunStats(c)
	return sig, err
}

func c07RunStats(c c07Case) (sig string, err error, st c07Stats) {
	step, phase := -1, "construct"
	sig, err = c07RunInner(c, &st, &step, &phase)
	if sig == "panic" {
		sig = "panic-" + phase
		if step >= 0 && step < len(c.Writes) {
			sig = "panic-" + phase + "-w-" + c07Region(c.Writes[step].A)
			err = fmt.Errorf("%v [write %d: %02x to %04x]", err, step, c.Writes[step].V, c.Writes[step].A)
		}
	}
	return sig, err, st
}

func c07RunInner(c c07Case, st *c07Stats, step *int, phase *string) (sig string, err error) {
	defer vf.Recover(&sig, &err)
	kind := c07KindOf(c.Cart)
	if kind < 0 || c.RomSize > 6 || c.RamSize > 5 || c.Run < 0 || c.Run > 100000 {
		return "bad-case", fmt.Errorf("case outside the domain")
	}
	hw := machine.NewHW(c07ROM(c.Cart, c.RomSize, c.RamSize), nil, false)
	k := &c07Cart{kind: kind, ramSize: c.RamSize}
	*phase = "preamble"
	dma := false
	for _, w := range c.Pre {
		if (kind == 0 || kind == 3) && w.A == 0xff46 && w.V >= 0xa0 && w.V < 0xc0 {
			// a transfer out of a cartridge RAM window that other properties leave undefined in some states: not part of a state here
			continue
		}
		hw.Mp.Write(w.A, w.V)
		k.write(w.A, w.V)
		dma = dma || w.A == 0xff46
	}
	if dma && c.Run < 170 {
		return "bad-case", fmt.Errorf("a preamble that starts a DMA transfer needs at least 170 cycles")
	}
	for i := 0; i < c.Run; i++ {
		hw.HW()
	}
	for _, k := range c.Keys {
		if k < 0 || k > 7 {
			return "bad-case", fmt.Errorf("button %d", k)
		}
		hw.C.ButtonAction(controller.Button(k), true)
	}
	var a, b c07Snap
	before, after := &a, &b
	*phase = "snapshot"
	c07Take(hw, k, before)
	for i, w := range c.Writes {
		*step = i
		*phase = "write"
		hw.Mp.Write(w.A, w.V)
		kb := *k
		k.write(w.A, w.V)
		*phase = "snapshot"
		c07Take(hw, k, after)
		st.Writes++
		changed := false
		for x := 0; x < 0x10000; x++ {
			if before.mem[x] == after.mem[x] {
				continue
			}
			if x >= 0xa000 && x < 0xc000 && !(before.hasRAM && after.hasRAM) {
				continue
			}
			changed = true
			if (before.mem[x]^after.mem[x])&^c07Allowed(&kb, w.A, uint16(x)) == 0 {
				continue
			}
			return "w-" + c07Region(w.A) + "-changes-" + c07Region(uint16(x)),
				fmt.Errorf("state %q, write %d: %02x to %04x changed %04x from %02x to %02x, which is not among the documented effects of that address", c.State, i, w.V, w.A, x, before.mem[x], after.mem[x])
		}
		if changed {
			st.Changed++
		}
		before, after = after, before
	}
	return "", nil
}

func init() {
	for _, chk := range []string{"io", "mem", "random"} {
		vf.RegisterReplay("C07/"+chk, func(raw json.RawMessage) (string, error) {
			var c c07Case
			if err := json.Unmarshal(raw, &c); err != nil {
				return "", err
			}
			return c07Run(c)
		})
	}
}

type c07Enum struct {
	c     *vf.Collector
	check string
	first map[string]c07Case
	msg   map[string]string
}

func c07NewEnum(c *vf.Collector, check string) *c07Enum {
	return &c07Enum{c: c, check: check, first: map[string]c07Case{}, msg: map[string]string{}}
}

func (e *c07Enum) fail(sig string, err error, cas c07Case) {
	if e.c.OpenKnown(sig) {
		e.c.Fail(e.check, sig, err.Error(), cas)
		return
	}
	e.c.Class("violation:"+sig, 1)
	if _, ok := e.first[sig]; !ok {
		e.first[sig], e.msg[sig] = cas, err.Error()
	}
}

func (e *c07Enum) finish(t *testing.T) {
	if len(e.first) == 0 {
		return
	}
	var sigs []string
	for s := range e.first {
		sigs = append(sigs, s)
	}
	sort.Strings(sigs)
	s := sigs[e.c.Env.Shard%len(sigs)]
	e.c.Fail(e.check, s, e.msg[s], e.first[s])
	for _, s := range sigs {
		t.Errorf("%s: sig=%s %s", e.check, s, e.msg[s])
	}
}

func c07CaseFor(s c07State, ws []c07W) c07Case {
	return c07Case{State: s.name, Cart: s.cart, RomSize: s.romSize, RamSize: s.ramSize, Pre: s.pre, Run: s.run, Writes: ws, Keys: s.keys}
}

// c07Mix is a small deterministic hash for the "random" value of the sweeps.
func c07Mix(a, b, c uint32) uint8 {
	x := a*2654435761 ^ b*40503 ^ c*97
	x ^= x >> 15
	x *= 0x2c1b3c6d
	x ^= x >> 12
	return uint8(x)
}

var c07Boundaries = []int{0x0000, 0x00ff, 0x0100, 0x1fff, 0x2000, 0x2fff, 0x3000, 0x3fff, 0x4000, 0x5fff, 0x6000, 0x7fff, 0x8000, 0x9fff, 0xa000, 0xa1ff, 0xa200, 0xa7ff, 0xa800, 0xbfff,
	0xc000, 0xddff, 0xde00, 0xdfff, 0xe000, 0xfdff, 0xfe00, 0xfe9f, 0xfea0, 0xfeff}

func TestC07(t *testing.T) {
	c := vf.New(t, "C07", "from 13 machine states (every controller type, LCD on/off, every STAT source selected with LYC = LY, APU on/off with channels, sweep and length counters running incl. counters at 1 on an odd sequencer step, timer running and about to overflow, buttons held with no group selected, channel 1's upward sweep armed just below overflow, clock register selected, 2 KiB RAM): "+
		"I/O sweep FF00-FFFF x 16 values (quick) / all 256 (thorough), one write per fresh machine; memory sweep 0000-FEFF x {00, FF, pseudo-random} over region boundaries and every 37th address (quick) / every address (thorough), 32 writes per machine; "+
		"plus rapid (state, extra preamble writes, cycles, 1-6 writes). All 64 KiB are read before and after every write and the changed set is compared with the documented effect set of the address. "+
		"Non-trivial: the write changed what at least one location reads. Distinct = (state, address, value) in the sweeps (by construction), hash of (state class, address, value class) for rapid cases.")
	defer c.Flush()
	c.RunReplays()
	thorough := c.Env.Thorough()

	c.Sub("io-sweep", func(t *testing.T) {
		en := c07NewEnum(c, "io")
		defer en.finish(t)
		quickVals := []int{0x00, 0x01, 0x02, 0x04, 0x08, 0x10, 0x20, 0x40, 0x80, 0xff, 0x7f, 0x0a, 0x55, 0xaa, -1, -2}
		var n, nt int64
		idx := 0
		for si, s := range c07States {
			for a := 0xff00; a <= 0xffff; a++ {
				nv := len(quickVals)
				if thorough {
					nv = 256
				}
				for vi := 0; vi < nv; vi++ {
					idx++
					if !c.Env.Mine(idx) {
						continue
					}
					v := vi
					if !thorough {
						v = quickVals[vi]
						if v < 0 {
							v = int(c07Mix(uint32(a), uint32(si), uint32(-v)+uint32(c.Env.Seed)*7))
						}
					}
					cas := c07CaseFor(s, []c07W{{uint16(a), uint8(v)}})
					sig, err, st := c07RunStats(cas)
					n++
					nt += int64(st.Changed)
					if st.Changed > 0 {
						c.Class("io-changed:"+s.name, 1)
					}
					if idx%4000 == 1 {
						c.Sample("io-write", cas)
					}
					if err != nil {
						en.fail(sig, err, cas)
					}
				}
			}
		}
		c.Bulk("io-write", n, nt)
		if thorough {
			c.Exhaustive("13 machine states x FF00-FFFF x all 256 values, one write per fresh machine")
		} else {
			c.Exhaustive("13 machine states x FF00-FFFF x 16 values {walking bit, 00, FF, 7F, 0A, 55, AA, 2 pseudo-random}, one write per fresh machine")
		}
	})

	c.Sub("memory-sweep", func(t *testing.T) {
		en := c07NewEnum(c, "mem")
		defer en.finish(t)
		var addrs []int
		if thorough {
			for a := 0; a < 0xff00; a++ {
				addrs = append(addrs, a)
			}
		} else {
			seen := map[int]bool{}
			for _, b := range c07Boundaries {
				for _, a := range []int{b - 1, b, b + 1} {
					if a >= 0 && a < 0xff00 && !seen[a] {
						seen[a] = true
						addrs = append(addrs, a)
					}
				}
			}
			for a := int(c.Env.Seed) % 37; a < 0xff00; a += 37 {
				if !seen[a] {
					seen[a] = true
					addrs = append(addrs, a)
				}
			}
			sort.Ints(addrs)
		}
		var n, nt int64
		idx := 0
		for si, s := range c07States {
			for vk := 0; vk < 3; vk++ {
				for lo := 0; lo < len(addrs); lo += 32 {
					idx++
					if !c.Env.Mine(idx) {
						continue
					}
					var ws []c07W
					for _, a := range addrs[lo:min(lo+32, len(addrs))] {
						v := []uint8{0x00, 0xff, c07Mix(uint32(a), uint32(si), uint32(c.Env.Seed))}[vk]
						ws = append(ws, c07W{uint16(a), v})
					}
					cas := c07CaseFor(s, ws)
					sig, err, st := c07RunStats(cas)
					n += int64(len(ws))
					nt += int64(st.Changed)
					c.Class("mem-changed:"+s.name, int64(st.Changed))
					if idx%300 == 1 {
						c.Sample("memory-writes", cas)
					}
					if err != nil {
						// name the write: re-run the chunk one write per fresh machine
						for _, w := range ws {
							one := c07CaseFor(s, []c07W{w})
							if s1, e1 := c07Run(one); e1 != nil && s1 == sig {
								err, cas = e1, one
								break
							}
						}
						en.fail(sig, err, cas)
					}
				}
			}
		}
		c.Bulk("memory-write", n, nt)
		if thorough {
			c.Exhaustive("13 machine states x every address 0000-FEFF x {00, FF, pseudo-random}, 32 consecutive addresses per machine")
		}
	})

	c.Rapid("random", 2500, 60000, func(rt *rapid.T) {
		cas, key := c07GenCase(rt)
		sig, err, st := c07RunStats(cas)
		c.Case("random:"+cas.State, key, st.Changed > 0, func() interface{} { return cas })
		if err != nil {
			if !c.Fail("random", sig, err.Error(), cas) {
				rt.Fatalf("sig=%s %v", sig, err)
			}
		}
	})
}

var c07IOAddrs = []uint16{0xff00, 0xff01, 0xff02, 0xff04, 0xff05, 0xff06, 0xff07, 0xff0f, 0xff10, 0xff11, 0xff12, 0xff13, 0xff14, 0xff16, 0xff17, 0xff18, 0xff19, 0xff1a, 0xff1b, 0xff1c, 0xff1d, 0xff1e,
	0xff20, 0xff21, 0xff22, 0xff23, 0xff24, 0xff25, 0xff26, 0xff30, 0xff37, 0xff3f, 0xff40, 0xff41, 0xff42, 0xff43, 0xff44, 0xff45, 0xff46, 0xff47, 0xff48, 0xff49, 0xff4a, 0xff4b, 0xffff}

func c07GenCase(rt *rapid.T) (c07Case, uint64) {
	si := rapid.IntRange(0, len(c07States)-1).Draw(rt, "state")
	s := c07States[si]
	addrGen := rapid.Custom(func(rt *rapid.T) uint16 {
		switch rapid.IntRange(0, 7).Draw(rt, "akind") {
		case 0, 1, 2:
			return rapid.SampledFrom(c07IOAddrs).Draw(rt, "addr")
		case 3:
			return uint16(rapid.IntRange(0xff00, 0xffff).Draw(rt, "addr"))
		case 4:
			b := rapid.SampledFrom(c07Boundaries).Draw(rt, "addr")
			return uint16(b)
		case 5:
			return uint16(rapid.IntRange(0x0000, 0x7fff).Draw(rt, "addr"))
		default:
			return uint16(rapid.IntRange(0x8000, 0xfeff).Draw(rt, "addr"))
		}
	})
	wGen := rapid.Custom(func(rt *rapid.T) c07W {
		return c07W{addrGen.Draw(rt, "a"), rapid.Byte().Draw(rt, "v")}
	})
	extra := rapid.SliceOfN(wGen, 0, 6).Draw(rt, "extra-preamble")
	run := rapid.SampledFrom([]int{170, 171, 200, 456, 1000, 2500, 4560, 9000}).Draw(rt, "run")
	writes := rapid.SliceOfN(wGen, 1, 6).Draw(rt, "writes")
	cas := c07CaseFor(s, writes)
	cas.Pre = c07Cat(s.pre, extra)
	cas.Run = run
	// distinct = (state class, address, value class) of the first write under test
	vclass := func(v uint8) string {
		switch {
		case v == 0:
			return "00"
		case v == 0xff:
			return "ff"
		case v&0x80 != 0:
			return "hi"
		}
		return "lo"
	}
	var parts []interface{}
	parts = append(parts, s.name, len(extra) > 0)
	for _, w := range writes {
		parts = append(parts, w.A, vclass(w.V))
	}
	return cas, vf.Hash(parts...)
}
