package checks

import (
	"encoding/json"
	"fmt"
	"os"
	"strconv"
	"strings"
	"testing"

	"pgregory.net/rapid"

	"verifharness/refcpu"
	"verifharness/vf"
)

// C01 — every SM83 instruction has its documented effect on registers, flags
// and memory, and changes nothing else. Oracle: refcpu.Step on the same
// pre-state, plus a shadow of all plain memory the instruction could reach.

type c01Rig struct {
	*cpuRig
	shadow [0x10000]uint8
	ring   []cpuCase // last cases since the previous full comparison
	count  int
}

func c01Plain(a uint16) bool {
	return a >= 0xc000 && a < 0xfe00 || a >= 0xff80
}

func newC01Rig() *c01Rig {
	rg := &c01Rig{cpuRig: newCPURig()}
	rg.resync()
	return rg
}

func (rg *c01Rig) resync() {
	for a := 0xc000; a < 0xe000; a++ {
		rg.shadow[a] = rg.m.Mp.Read(uint16(a))
	}
	for a := 0xff80; a <= 0xffff; a++ {
		rg.shadow[a] = rg.m.Mp.Read(uint16(a))
	}
}

// fullCompare returns the first plain address whose content differs from the shadow.
func (rg *c01Rig) fullCompare() (uint16, bool) {
	for a := 0xc000; a < 0xe000; a++ {
		if rg.m.Mp.Read(uint16(a)) != rg.shadow[a] {
			return uint16(a), true
		}
	}
	for a := 0xff80; a <= 0xffff; a++ {
		if rg.m.Mp.Read(uint16(a)) != rg.shadow[a] {
			return uint16(a), true
		}
	}
	return 0, false
}

func (rg *c01Rig) near(a uint16) (uint16, bool) {
	for d := -2; d <= 2; d++ {
		x := uint16(int(a) + d)
		if !c01Plain(x) {
			continue
		}
		if rg.m.Mp.Read(x) != rg.shadow[cpuCanon(x)] {
			return x, true
		}
	}
	return 0, false
}

// check executes one case; full requests a whole-memory comparison afterwards.
func (rg *c01Rig) check(c *cpuCase, full bool) (sig string, err error) {
	defer vf.Recover(&sig, &err)
	op := cpuOpName(c.Code)
	for _, p := range c.Pokes {
		if !c01Plain(p.A) {
			return "harness", fmt.Errorf("harness: poke outside plain memory %04x", p.A)
		}
		rg.shadow[cpuCanon(p.A)] = p.V
	}
	for i, b := range c.Code {
		a := c.R.PC + uint16(i)
		if !c01Plain(a) {
			return "harness", fmt.Errorf("harness: code outside plain memory %04x", a)
		}
		rg.shadow[cpuCanon(a)] = b
	}
	exp, obs, e := rg.runOne(c)
	if e != nil {
		return "rig-boundary", e
	}
	if exp.Undefined {
		return "", nil
	}
	for _, w := range exp.Acc {
		if !c01Plain(w.Addr) {
			return "harness", fmt.Errorf("harness: generated access outside plain memory %04x (op %s)", w.Addr, op)
		}
		if w.Write {
			rg.shadow[cpuCanon(w.Addr)] = w.Val
		}
	}
	got := obs.R
	if exp.Stop && got.PC == exp.R.PC+1 {
		got.PC = exp.R.PC // STOP may be treated as a one- or two-byte instruction
	}
	if got.F&0x0f != 0 {
		return "f-low-nibble", fmt.Errorf("op %s: F=%02x has low bits set (regs before %+v)", op, got.F, c.R)
	}
	if got != exp.R {
		kind := "regs"
		g2 := got
		g2.F = exp.R.F
		if g2 == exp.R {
			kind = "flags"
		}
		sig = "op-" + op + "-" + kind
		if kind == "flags" && (c.Code[0] == 0xe8 || c.Code[0] == 0xf8) && (got.F^exp.R.F) == refcpu.FH && c.Code[1] >= 0x80 {
			sig = "addsp-ldhlsp-h-flag-negative-offset"
		}
		return sig, fmt.Errorf("op %s (code % x): got %+v want %+v (before %+v)", op, c.Code, got, exp.R, c.R)
	}
	for _, w := range exp.Acc {
		if w.Write {
			if v := rg.m.Mp.Read(w.Addr); v != cpuLastWrite(exp, w.Addr) {
				return "op-" + op + "-memwrite", fmt.Errorf("op %s: mem[%04x]=%02x want %02x", op, w.Addr, v, cpuLastWrite(exp, w.Addr))
			}
		}
	}
	// nothing else changes
	wantIME := c.IME
	checkIME := true
	switch exp.IME {
	case refcpu.IMEDisable:
		wantIME = false
	case refcpu.IMEEnableNow:
		wantIME = true
	case refcpu.IMEEnableDelayed:
		checkIME = false // when EI takes effect is C04's business
	}
	if checkIME && obs.IME != wantIME {
		return "op-" + op + "-ime", fmt.Errorf("op %s: master enable %v after the instruction, want %v (before %v)", op, obs.IME, wantIME, c.IME)
	}
	if obs.Halted != exp.Halt {
		return "op-" + op + "-halted", fmt.Errorf("op %s: halted=%v want %v", op, obs.Halted, exp.Halt)
	}
	if obs.Stopped != exp.Stop {
		return "op-" + op + "-stopped", fmt.Errorf("op %s: stopped=%v want %v", op, obs.Stopped, exp.Stop)
	}
	if obs.IF&0x1f != 0 {
		return "op-" + op + "-if", fmt.Errorf("op %s: IF=%02x changed", op, obs.IF)
	}
	for _, w := range exp.Acc {
		if a, bad := rg.near(w.Addr); bad {
			return "op-" + op + "-stray-write", fmt.Errorf("op %s: mem[%04x]=%02x but nothing should have written it (shadow %02x)", op, a, rg.m.Mp.Read(a), rg.shadow[cpuCanon(a)])
		}
	}
	if a, bad := rg.near(c.R.PC); bad {
		return "op-" + op + "-stray-write", fmt.Errorf("op %s: mem[%04x] near the code changed", op, a)
	}
	if full {
		if a, bad := rg.fullCompare(); bad {
			return "op-" + op + "-stray-write", fmt.Errorf("op %s: mem[%04x]=%02x but nothing should have written it (shadow %02x)", op, a, rg.m.Mp.Read(a), rg.shadow[a])
		}
	}
	return "", nil
}

// step is check plus the periodic whole-memory comparison with block replay.
func (rg *c01Rig) step(c *cpuCase) (sig string, err error, culprit *cpuCase) {
	sig, err = rg.check(c, false)
	if err != nil {
		return sig, err, c
	}
	rg.ring = append(rg.ring, *c)
	if len(rg.ring) >= 4096 {
		return rg.flushRing()
	}
	return "", nil, nil
}

func (rg *c01Rig) flushRing() (sig string, err error, culprit *cpuCase) {
	ring := rg.ring
	rg.ring = rg.ring[:0]
	a, bad := rg.fullCompare()
	if !bad {
		return "", nil, nil
	}
	// find the first offender: everything is deterministic, so re-run the block
	rg.resync()
	for i := range ring {
		if s, e := rg.check(&ring[i], true); e != nil {
			return s, e, &ring[i]
		}
	}
	return "stray-write-unreproduced", fmt.Errorf("mem[%04x] changed during a block of %d cases but no single case reproduces it", a, len(ring)), &ring[len(ring)-1]
}

var c01Shared *c01Rig

func c01Run(c cpuCase) (string, error) {
	if c01Shared == nil {
		c01Shared = newC01Rig()
	}
	return c01Shared.check(&c, true)
}

func init() {
	vf.RegisterReplay("C01/instr", func(raw json.RawMessage) (string, error) {
		var c cpuCase
		if err := json.Unmarshal(raw, &c); err != nil {
			return "", err
		}
		return c01Run(c)
	})
}

// ---------------------------------------------------------------------------
// enumerations

func c01Filler(mx *cpuMix) refcpu.Regs {
	return refcpu.Regs{A: mx.u8(), F: mx.u8() & 0xf0, B: mx.u8(), C: mx.u8(), D: mx.u8(), E: mx.u8(), H: 0xd1, L: 0x23, SP: 0xdff0, PC: 0xc100}
}

func c01SetR(r *refcpu.Regs, i int, v uint8, pokes *[]cpuPoke) {
	switch i {
	case 0:
		r.B = v
	case 1:
		r.C = v
	case 2:
		r.D = v
	case 3:
		r.E = v
	case 4:
		r.H = v
	case 5:
		r.L = v
	case 6:
		*pokes = append(*pokes, cpuPoke{r.HL(), v})
	case 7:
		r.A = v
	}
}

type c01Enum struct {
	name  string
	desc  string
	slots int                                                               // partition units
	each  func(slot int, mx *cpuMix, emit func(c cpuCase, nontrivial bool)) // emits all cases of a slot
}

func c01Enums(env vf.Env) []c01Enum {
	var es []c01Enum
	// 8 ALU ops x 9 sources x A x operand x carry-in
	es = append(es, c01Enum{"alu8", "8 ALU ops x {B,C,D,E,H,L,(HL),A,d8} x A x operand x carry-in (complete)", 8 * 9 * 256, func(slot int, mx *cpuMix, emit func(cpuCase, bool)) {
		op, src, a := slot/(9*256), slot/256%9, slot%256
		for v := 0; v < 256; v++ {
			if src == 7 && v != a {
				continue
			}
			for cy := 0; cy < 2; cy++ {
				r := c01Filler(mx)
				r.F = r.F&0xe0 | uint8(cy)<<4
				var pokes []cpuPoke
				var code []byte
				if src == 8 {
					code = []byte{0xc6 | uint8(op)<<3, uint8(v)}
				} else {
					code = []byte{0x80 | uint8(op)<<3 | uint8(src)}
					c01SetR(&r, src, uint8(v), &pokes)
				}
				r.A = uint8(a)
				if src == 4 || src == 5 {
					// H or L is the operand: (HL) is not accessed, nothing to fix up
				}
				emit(cpuCase{R: r, Code: code, Pokes: pokes}, true)
			}
		}
	}})
	// CB rotates/shifts x 8 targets x value x carry; BIT/RES/SET x bit x target x value
	es = append(es, c01Enum{"cb", "all 256 CB opcodes x every value of the target x carry-in (complete)", 256, func(slot int, mx *cpuMix, emit func(cpuCase, bool)) {
		for v := 0; v < 256; v++ {
			for cy := 0; cy < 2; cy++ {
				r := c01Filler(mx)
				r.F = r.F&0xe0 | uint8(cy)<<4
				var pokes []cpuPoke
				c01SetR(&r, slot&7, uint8(v), &pokes)
				emit(cpuCase{R: r, Code: []byte{0xcb, uint8(slot)}, Pokes: pokes}, true)
			}
		}
	}})
	// INC/DEC r and (HL) x value x all 16 flag nibbles
	es = append(es, c01Enum{"incdec8", "INC/DEC r,(HL) x value x 16 flag nibbles (complete)", 16 * 16, func(slot int, mx *cpuMix, emit func(cpuCase, bool)) {
		which, fl := slot/16, slot%16
		tgt, dec := which/2, which%2
		for v := 0; v < 256; v++ {
			r := c01Filler(mx)
			r.F = uint8(fl) << 4
			var pokes []cpuPoke
			c01SetR(&r, tgt, uint8(v), &pokes)
			emit(cpuCase{R: r, Code: []byte{0x04 | uint8(tgt)<<3 | uint8(dec)}, Pokes: pokes}, true)
		}
	}})
	// accumulator/flag ops x A x 16 flag nibbles (incl. DAA)
	es = append(es, c01Enum{"accflag", "RLCA/RRCA/RLA/RRA/DAA/CPL/SCF/CCF x A x 16 flag nibbles (complete)", 8 * 16, func(slot int, mx *cpuMix, emit func(cpuCase, bool)) {
		y, fl := slot/16, slot%16
		for a := 0; a < 256; a++ {
			r := c01Filler(mx)
			r.A, r.F = uint8(a), uint8(fl)<<4
			emit(cpuCase{R: r, Code: []byte{0x07 | uint8(y)<<3}}, true)
		}
	}})
	// POP AF x every popped byte pair (F exhaustively, A sampled), PUSH AF
	es = append(es, c01Enum{"popaf", "POP AF x every popped F byte x 16 A bytes; POP BC/DE/HL and PUSH qq x 256 values", 256, func(slot int, mx *cpuMix, emit func(cpuCase, bool)) {
		for k := 0; k < 16; k++ {
			r := c01Filler(mx)
			a := mx.u8()
			emit(cpuCase{R: r, Code: []byte{0xf1}, Pokes: []cpuPoke{{r.SP, uint8(slot)}, {r.SP + 1, a}}}, true)
		}
		for p := 0; p < 4; p++ {
			r := c01Filler(mx)
			emit(cpuCase{R: r, Code: []byte{0xc1 | uint8(p)<<4}, Pokes: []cpuPoke{{r.SP, uint8(slot)}, {r.SP + 1, mx.u8()}}}, true)
			r = c01Filler(mx)
			r.B, r.D, r.A = uint8(slot), uint8(slot), uint8(slot)
			emit(cpuCase{R: r, Code: []byte{0xc5 | uint8(p)<<4}}, true)
		}
	}})
	// INC/DEC rr x all 65536 values
	es = append(es, c01Enum{"incdec16", "INC/DEC BC,DE,HL,SP x all 65536 values (complete)", 8 * 256, func(slot int, mx *cpuMix, emit func(cpuCase, bool)) {
		which, hi := slot/256, slot%256
		p, dec := which/2, which%2
		for lo := 0; lo < 256; lo++ {
			r := c01Filler(mx)
			v := uint16(hi)<<8 | uint16(lo)
			switch p {
			case 0:
				r.B, r.C = uint8(hi), uint8(lo)
			case 1:
				r.D, r.E = uint8(hi), uint8(lo)
			case 2:
				r.H, r.L = uint8(hi), uint8(lo)
			default:
				r.SP = v
			}
			emit(cpuCase{R: r, Code: []byte{0x03 | uint8(p)<<4 | uint8(dec)<<3}}, true)
		}
	}})
	// ADD SP,e and LD HL,SP+e
	highs := []int{0x00, 0x0f, 0x7f, 0x80, 0xc5, 0xff}
	desc := "ADD SP,e and LD HL,SP+e x SP low byte x e x 6 SP high bytes (00,0F,7F,80,C5,FF)"
	if env.Thorough() {
		highs = nil
		for h := 0; h < 256; h++ {
			highs = append(highs, h)
		}
		desc = "ADD SP,e and LD HL,SP+e x all 65536 SP x all 256 e (complete)"
	}
	es = append(es, c01Enum{"spe", desc, 2 * len(highs) * 256, func(slot int, mx *cpuMix, emit func(cpuCase, bool)) {
		which, hi, lo := slot/(len(highs)*256), highs[slot/256%len(highs)], slot%256
		for e := 0; e < 256; e++ {
			r := c01Filler(mx)
			r.SP = uint16(hi)<<8 | uint16(lo)
			op := byte(0xe8)
			if which == 1 {
				op = 0xf8
			}
			emit(cpuCase{R: r, Code: []byte{op, uint8(e)}}, true)
		}
	}})
	// ADD HL,rr: carry chains across bits 11 and 15 and neighbours of the boundaries, plus random
	bvals := []uint16{0x0000, 0x0001, 0x000f, 0x0010, 0x00ff, 0x0100, 0x07ff, 0x0800, 0x0ffe, 0x0fff, 0x1000, 0x1001, 0x7ffe, 0x7fff, 0x8000, 0x8001,
		0xefff, 0xf000, 0xf001, 0xf7ff, 0xf800, 0xfffe, 0xffff, 0x0f0f, 0xf0f0, 0x5555, 0xaaaa, 0x8fff, 0x7000, 0x0801, 0xf7fe, 0x1234}
	es = append(es, c01Enum{"addhl", "ADD HL,BC/DE/HL/SP x 32x32 boundary values (carry chains over bits 11 and 15) + 256 random pairs per slot", 4 * len(bvals), func(slot int, mx *cpuMix, emit func(cpuCase, bool)) {
		p, i := slot/len(bvals), slot%len(bvals)
		mk := func(hl, v uint16) {
			r := c01Filler(mx)
			r.H, r.L = uint8(hl>>8), uint8(hl)
			switch p {
			case 0:
				r.B, r.C = uint8(v>>8), uint8(v)
			case 1:
				r.D, r.E = uint8(v>>8), uint8(v)
			case 2:
			default:
				r.SP = v
			}
			emit(cpuCase{R: r, Code: []byte{0x09 | uint8(p)<<4}}, true)
		}
		for _, v := range bvals {
			mk(bvals[i], v)
		}
		for k := 0; k < 256; k++ {
			mk(mx.u16(), mx.u16())
		}
	}})
	return es
}

// ---------------------------------------------------------------------------
// rapid generator: any defined opcode, structured pointers

var c01PtrPool = []uint16{0xc000, 0xc001, 0xc0ff, 0xc100, 0xcfff, 0xd000, 0xd7fe, 0xdffe, 0xdfff, 0xe000, 0xe001, 0xefff, 0xf000, 0xfdfe, 0xfdff,
	0xff80, 0xff81, 0xffc8, 0xfff5, 0xfff6, 0xffff}

func c01GenPtr(rt *rapid.T, label string) uint16 {
	switch rapid.IntRange(0, 5).Draw(rt, label+"-kind") {
	case 0:
		return rapid.SampledFrom(c01PtrPool).Draw(rt, label)
	case 1:
		return uint16(rapid.IntRange(0xd000, 0xdfff).Draw(rt, label))
	case 2:
		return uint16(rapid.IntRange(0xf000, 0xfdff).Draw(rt, label))
	case 3:
		return uint16(rapid.IntRange(0xffc8, 0xfff6).Draw(rt, label))
	case 4:
		return uint16(rapid.IntRange(0xc800, 0xcfff).Draw(rt, label))
	default:
		return uint16(rapid.IntRange(0xd0, 0xdf).Draw(rt, label+"-page"))<<8 | uint16(rapid.SampledFrom([]int{0x00, 0x01, 0xfe, 0xff}).Draw(rt, label+"-edge"))
	}
}

func c01GenPC(rt *rapid.T) uint16 {
	switch rapid.IntRange(0, 4).Draw(rt, "pc-kind") {
	case 0:
		return uint16(rapid.IntRange(0xc000, 0xc7f0).Draw(rt, "pc"))
	case 1:
		return uint16(rapid.IntRange(0xff80, 0xffc0).Draw(rt, "pc"))
	case 2:
		return uint16(rapid.IntRange(0xe000, 0xe7f0).Draw(rt, "pc"))
	case 3: // JR/fetch across a page end
		return uint16(rapid.IntRange(0xc0, 0xc6).Draw(rt, "pc-page"))<<8 | uint16(rapid.IntRange(0xfb, 0xff).Draw(rt, "pc-lo"))
	default:
		return 0xc100
	}
}

func c01ValidSP(sp uint16) bool {
	// every byte a push/pop/call could touch (sp-2 .. sp+1) must be plain memory away from the scratch NOP
	for d := -2; d <= 1; d++ {
		a := uint16(int(sp) + d)
		if !c01Plain(a) || a >= 0xfff8 && a != 0xffff {
			return false
		}
	}
	return true
}

func c01GenCase(rt *rapid.T) cpuCase {
	opi := rapid.IntRange(0, 511).Draw(rt, "opcode")
	var code []byte
	if opi < 256 {
		op := uint8(opi)
		if refcpu.IsUndefined(op) || op == 0xcb {
			op = 0x00
		}
		code = []byte{op, rapid.Byte().Draw(rt, "imm1"), rapid.Byte().Draw(rt, "imm2")}
	} else {
		code = []byte{0xcb, uint8(opi - 256)}
	}
	r := refcpu.Regs{A: rapid.Byte().Draw(rt, "a"), F: rapid.Byte().Draw(rt, "f") & 0xf0}
	r.PC = c01GenPC(rt)
	hl, bc, de := c01GenPtr(rt, "hl"), c01GenPtr(rt, "bc"), c01GenPtr(rt, "de")
	if rapid.IntRange(0, 7).Draw(rt, "free-regs") == 0 {
		// instructions that do not dereference the pair see arbitrary values
		switch code[0] {
		case 0x09, 0x19, 0x29, 0x39, 0x03, 0x13, 0x23, 0x0b, 0x1b, 0x2b, 0x04, 0x05, 0x0c, 0x0d, 0x14, 0x15, 0x1c, 0x1d, 0x24, 0x25, 0x2c, 0x2d, 0xe9, 0xf9, 0xc5, 0xd5, 0xe5:
			hl, bc, de = rapid.Uint16().Draw(rt, "hl-any"), rapid.Uint16().Draw(rt, "bc-any"), rapid.Uint16().Draw(rt, "de-any")
		}
	}
	r.H, r.L, r.B, r.C, r.D, r.E = uint8(hl>>8), uint8(hl), uint8(bc>>8), uint8(bc), uint8(de>>8), uint8(de)
	sp := c01GenPtr(rt, "sp")
	if !c01ValidSP(sp) {
		sp = 0xdff0
	}
	r.SP = sp
	switch code[0] {
	case 0xe0, 0xf0:
		n := rapid.IntRange(0x80, 0xf7).Draw(rt, "ldh-n")
		if n == 0xf7 {
			n = 0xff
		}
		code[1] = uint8(n)
	case 0xe2, 0xf2:
		n := rapid.IntRange(0x80, 0xf7).Draw(rt, "ldh-c")
		if n == 0xf7 {
			n = 0xff
		}
		r.C = uint8(n)
	case 0x08, 0xea, 0xfa:
		a := c01GenPtr(rt, "nn")
		if a == 0xffff || a == 0xfdff || !c01Plain(a+1) || a+1 >= 0xfff8 {
			a = 0xd234
		}
		code[1], code[2] = uint8(a), uint8(a>>8)
	case 0xf9: // LD SP,HL: SP value is free
	}
	cas := cpuCase{R: r, Code: code, IME: rapid.Bool().Draw(rt, "ime")}
	// operand bytes around each pointer
	for _, p := range []uint16{r.HL(), r.BC(), r.DE(), 0xff00 | uint16(r.C), 0xff00 | uint16(code[1]), uint16(code[len(code)-1])<<8 | uint16(code[1])} {
		if c01Plain(p) && (p < 0xfff8 || p == 0xffff) {
			cas.Pokes = append(cas.Pokes, cpuPoke{p, rapid.Byte().Draw(rt, "mem")})
		}
	}
	for d := -2; d <= 1; d++ {
		cas.Pokes = append(cas.Pokes, cpuPoke{uint16(int(r.SP) + d), rapid.Byte().Draw(rt, "stack")})
	}
	return cas
}

// c01Legal makes a generated case satisfy the rig's preconditions by
// construction: every data access the reference predicts lies in plain memory
// away from the code bytes and the scratch NOP; otherwise the pointers fall
// back to fixed safe values.
func c01Legal(cas *cpuCase, read func(uint16) uint8) {
	ok := func() bool {
		mem := map[uint16]uint8{}
		for _, p := range cas.Pokes {
			mem[p.A] = p.V
		}
		for i, b := range cas.Code {
			mem[cas.R.PC+uint16(i)] = b
		}
		res := refcpu.Step(cas.R, func(a uint16) uint8 {
			if v, ok := mem[a]; ok {
				return v
			}
			return 0
		}, false)
		for _, a := range res.Acc {
			if !c01Plain(a.Addr) || a.Addr >= 0xfff8 && a.Addr != 0xffff {
				return false
			}
			d := a.Addr - cas.R.PC
			if d < 4 || d > 0xfffc {
				return false
			}
			if cpuCanon(a.Addr)-cpuCanon(cas.R.PC) < 4 || cpuCanon(cas.R.PC)-cpuCanon(a.Addr) < 4 {
				return false
			}
		}
		return true
	}
	if ok() {
		return
	}
	// fall back: safe pointers, keep everything else
	cas.R.H, cas.R.L, cas.R.B, cas.R.C, cas.R.D, cas.R.E, cas.R.SP = 0xd1, 0x23, 0xd3, 0x45, 0xd5, 0x67, 0xdff0
	switch cas.Code[0] {
	case 0xe2, 0xf2:
		cas.R.C = 0x90
	case 0xe0, 0xf0:
		cas.Code[1] = 0x91
	case 0x08, 0xea, 0xfa:
		cas.Code[1], cas.Code[2] = 0x34, 0xd2
	}
	var pk []cpuPoke
	for _, p := range cas.Pokes {
		d1, d2 := cpuCanon(p.A)-cpuCanon(cas.R.PC), cpuCanon(cas.R.PC)-cpuCanon(p.A)
		if d1 >= 4 && d2 >= 4 {
			pk = append(pk, p)
		}
	}
	cas.Pokes = pk
	if !ok() {
		cas.R.PC = 0xc100
	}
}

func c01DropOverlappingPokes(cas *cpuCase) {
	var pk []cpuPoke
	for _, p := range cas.Pokes {
		over := false
		for i := range cas.Code {
			if cpuCanon(p.A) == cpuCanon(cas.R.PC+uint16(i)) {
				over = true
			}
		}
		if !over && (p.A < 0xfff8 || p.A == 0xffff) && c01Plain(p.A) {
			pk = append(pk, p)
		}
	}
	cas.Pokes = pk
}

// ---------------------------------------------------------------------------

func c01LoadDAA() (rows [][4]uint8, err error) {
	b, err := os.ReadFile("/repo/daa.csv")
	if err != nil {
		return nil, err
	}
	for _, line := range strings.Split(strings.TrimSpace(string(b)), "\n") {
		f := strings.Split(strings.TrimSpace(line), ",")
		if len(f) != 4 {
			continue
		}
		var row [4]uint8
		for i := range f {
			v, e := strconv.ParseUint(strings.TrimPrefix(f[i], "0x"), 16, 8)
			if e != nil {
				return nil, e
			}
			row[i] = uint8(v)
		}
		rows = append(rows, row)
	}
	return rows, nil
}

func TestC01(t *testing.T) {
	c := vf.New(t, "C01", "one instruction per case on a ROM-only machine (LCD off, IF=0, CPU stepped alone): registers set through the hook, instruction and operand bytes in plain memory; "+
		"compared with refcpu.Step (independent x/y/z-decoded reference) on all ten registers, flags, F low nibble, predicted memory writes, IME/halted/stopped/IF unchanged, "+
		"and a shadow of all work/high RAM (neighbourhood every case, whole memory every 4096 cases with block replay). Enumerations are complete over the named sub-spaces (distinct by construction, all non-trivial: each changes a register, flag or memory); "+
		"rapid cases draw any defined opcode with structured pointers; non-trivial = the reference predicts a change other than PC+length or a taken branch; distinct = hash of the whole case.")
	defer c.Flush()
	c.RunReplays()
	rg := newC01Rig()
	c01Shared = rg

	for ei, en := range c01Enums(c.Env) {
		en := en
		c.Sub(en.name, func(t *testing.T) {
			var n int64
			errs := 0
			mx := cpuMix(uint64(c.Env.RandSeed(int64(ei))))
			for slot := 0; slot < en.slots; slot++ {
				if !c.Env.Mine(slot) {
					continue
				}
				en.each(slot, &mx, func(cas cpuCase, nt bool) {
					n++
					if n%50000 == 1 {
						c.Sample(en.name, cas)
					}
					sig, err, culprit := rg.step(&cas)
					if err != nil {
						known, first := c.FailFirst("instr", sig, err.Error(), *culprit)
						if !known && first {
							errs++
							t.Errorf("%v", err)
						}
					}
				})
			}
			if sig, err, culprit := rg.flushRing(); err != nil {
				if known, first := c.FailFirst("instr", sig, err.Error(), *culprit); !known && first {
					t.Errorf("%v", err)
				}
			}
			c.Bulk(en.name, n, n)
			c.Exhaustive(en.desc)
		})
	}

	// DAA against the repository's own table (row for row)
	c.Sub("daa-csv", func(t *testing.T) {
		if c.Env.Shard != 0 {
			return
		}
		rows, err := c01LoadDAA()
		if err != nil {
			c.Note("daa.csv not readable: %v", err)
			return
		}
		agree := 0
		for _, row := range rows {
			r := refcpu.Regs{A: row[0], F: row[1], H: 0xd1, L: 0x23, SP: 0xdff0, PC: 0xc100}
			exp := refcpu.Step(r, func(uint16) uint8 { return 0x27 }, false)
			if exp.R.A == row[2] && exp.R.F == row[3] {
				agree++
			}
			cas := cpuCase{R: r, Code: []byte{0x27}}
			sig, e, culprit := rg.step(&cas)
			if e != nil {
				if known, first := c.FailFirst("instr", sig, e.Error(), *culprit); !known && first {
					t.Errorf("%v", e)
				}
			}
		}
		rg.flushRing()
		c.Bulk("daa-csv-row", int64(len(rows)), int64(len(rows)))
		c.Extra("daa_csv_rows", len(rows))
		c.Extra("daa_csv_rows_agreeing_with_reference", agree)
		if agree != len(rows) {
			c.Note("the reference disagrees with daa.csv on %d rows (daa.csv is part of the code under test; reported, not used as the oracle)", len(rows)-agree)
		}
	})

	c.Rapid("any-opcode", 400000, 8000000, func(rt *rapid.T) {
		cas := c01GenCase(rt)
		c01DropOverlappingPokes(&cas)
		c01Legal(&cas, nil)
		c01DropOverlappingPokes(&cas)
		// classify
		mem := map[uint16]uint8{}
		for _, p := range cas.Pokes {
			mem[p.A] = p.V
		}
		for i, b := range cas.Code {
			mem[cas.R.PC+uint16(i)] = b
		}
		res := refcpu.Step(cas.R, func(a uint16) uint8 { return mem[a] }, false)
		plain := cas.R
		plain.PC = res.R.PC
		nt := res.R != plain || len(res.Writes()) > 0 || res.Taken
		class := "gen-base"
		if cas.Code[0] == 0xcb {
			class = "gen-cb"
		}
		if len(res.Acc) > 0 {
			class += "-mem"
		}
		if res.Cond {
			if res.Taken {
				class += "-taken"
			} else {
				class += "-nottaken"
			}
		}
		c.Case(class, vf.Hash(cas), nt, func() interface{} { return cas })
		// whole-memory comparison on every generated case, so that a failure
		// always belongs to the case rapid is shrinking
		sig, err := rg.check(&cas, true)
		if err != nil {
			if !c.Fail("instr", sig, err.Error(), cas) {
				rt.Fatalf("%v", err)
			}
		}
	})
	// Instruction sequences: what an instruction does must not depend on the instruction that ran just before
	// it (stale per-instruction state: early-finish rules, cached decodes, operand latches). Generated programs
	// - conditional jumps/calls/returns of both outcomes, CB-prefixed and (HL) forms, stack traffic - run in
	// lock-step with the reference; registers, flags and stored bytes are compared after every instruction.
	lrg := newLockstepRig()
	c.Rapid("sequences", 24000, 800000, func(rt *rapid.T) {
		cas := c01GenSequence(rt)
		st, sig, err := func() (st lsStats, sig string, err error) {
			defer vf.Recover(&sig, &err)
			return lrg.lockstep(&cas, lsPolicy{checkInstr: true})
		}()
		c.Case("sequence-end-"+st.End, vf.Hash(cas), st.Instrs >= 6, func() interface{} { return cas })
		c.Class("sequence-instructions-executed", int64(st.Instrs))
		if err != nil {
			if !c.Fail("sequence", sig, err.Error(), cas) {
				rt.Fatalf("%v", err)
			}
		}
	})
}

// c01GenSequence: short programs dense in the pairs that matter - a conditional or prefixed instruction
// directly followed by a CB-prefixed or memory-operand one.
func c01GenSequence(rt *rapid.T) lsCase {
	cas := lsCase{R: lsGenRegs(rt), MaxCycles: rapid.IntRange(60, 900).Draw(rt, "cycles")}
	n := rapid.IntRange(4, 60).Draw(rt, "ninstr")
	fl := lsFlavour{flow: 6, mem: 6, raw: 2}
	var code []byte
	for i := 0; i < n; i++ {
		switch rapid.IntRange(0, 5).Draw(rt, "shape") {
		case 0: // conditional relative jump over nothing (both outcomes leave the next instruction next)
			code = append(code, 0x20|byte(rapid.IntRange(0, 3).Draw(rt, "cc"))<<3, 0x00)
		case 1: // conditional absolute jump / call / return whose target is the next instruction or a subroutine
			cc := byte(rapid.IntRange(0, 3).Draw(rt, "cc2")) << 3
			t := 0xc000 + len(code) + 3
			code = append(code, 0xc2|cc, byte(t), byte(t>>8))
		case 2: // CB-prefixed, biased to the (HL) forms
			op := rapid.Byte().Draw(rt, "cbop")
			if rapid.Bool().Draw(rt, "hl") {
				op = op&0xf8 | 6
			}
			code = append(code, 0xcb, op)
		default:
			code = append(code, lsGenInstr(rt, fl, n*2)...)
		}
	}
	cas.Code = append(code, 0, 0, 0, 0, 0, 0, 0, 0)
	var subs []cpuPoke
	cas.Handlers, subs = lsGenHandlers(rt, lsFlavour{mem: 4})
	cas.Pokes = append(subs, lsStackFill(rt, len(cas.Code))...)
	return cas
}
