package checks

import (
	"encoding/json"
	"fmt"
	"sort"
	"testing"

	"github.com/scottyw/tetromino/gameboy/memory"
	"pgregory.net/rapid"

	"verifharness/machine"
	"verifharness/vf"
)

// C09 — cartridge RAM is gated, banked and retained per controller.
//
// Reference model (Pan Docs "MBC1/2/3/5", header byte 0149): a bus-level model
// of the RAM side of each controller.
//
//	enable     0000-1FFF (MBC2: 0000-3FFF with A8 clear): enabled iff v&0F == 0A
//	MBC1       4000-5FFF BANK2 = v&3, 6000-7FFF MODE = v&1; RAM bank = MODE ? BANK2 mod banks : 0
//	MBC2       512 half-bytes, address bits 0-8 only, upper nibble reads 1
//	MBC3       4000-5FFF: 00-07 RAM bank (mod banks); anything else selects something that is not RAM
//	MBC5       4000-5FFF: RAM bank = v mod banks
//	banks      header 0149: 00/01/02 -> 1, 03 -> 4, 04 -> 16, 05 -> 8 (01 is 2 KiB: only A000-A7FF asserted)
//
// A cell that was never written while enabled is unknown and never compared.

type c09Op struct {
	K string `json:"k"` // "w" bus write, "r" bus read, "d" DumpRAM
	A uint16 `json:"a,omitempty"`
	V uint8  `json:"v,omitempty"`
}

type c09Case struct {
	Cart    uint8   `json:"cart"`
	RomSize uint8   `json:"romsize"`
	RamSize uint8   `json:"ramsize"`
	Ops     []c09Op `json:"ops"`
}

const (
	c09None = 0
	c09MBC1 = 1
	c09MBC2 = 2
	c09MBC3 = 3
	c09MBC5 = 5
)

var c09KindNames = map[int]string{c09None: "rom-only", c09MBC1: "mbc1", c09MBC2: "mbc2", c09MBC3: "mbc3", c09MBC5: "mbc5"}
var c09KindList = []int{c09None, c09MBC1, c09MBC2, c09MBC3, c09MBC5}
var c09Carts = map[int][]uint8{
	c09None: {0x00},
	c09MBC1: {0x01, 0x02, 0x03},
	c09MBC2: {0x05, 0x06},
	c09MBC3: {0x0f, 0x10, 0x11, 0x12, 0x13},
	c09MBC5: {0x19, 0x1a, 0x1b, 0x1c, 0x1d, 0x1e},
}

func c09KindOf(cart uint8) int {
	switch {
	case cart == 0x00:
		return c09None
	case cart >= 0x01 && cart <= 0x03:
		return c09MBC1
	case cart == 0x05 || cart == 0x06:
		return c09MBC2
	case cart >= 0x0f && cart <= 0x13:
		return c09MBC3
	case cart >= 0x19 && cart <= 0x1e:
		return c09MBC5
	}
	return -1
}

func c09Banks(kind int, ramSize uint8) int {
	if kind == c09MBC2 {
		return 1
	}
	switch ramSize {
	case 3:
		return 4
	case 4:
		return 16
	case 5:
		return 8
	}
	return 1
}

type c09Cell struct {
	val      uint8
	known    bool
	ctlAt    int // count of enable/bank/mode register writes when the cell was written
	toggleAt int // count of effective enable changes / bank changes when the cell was written
	switchAt int
	prev     uint8 // value before the last write
	prevOK   bool
}

type c09Model struct {
	kind    int
	nb      int
	ramSize uint8
	en      bool
	b2      int
	mode    bool
	sel     int
	cells   map[int]*c09Cell
	// counters
	ctl, toggles, switches int
	// last write attempted while disabled, per cell (diagnosis)
	disabledWrite map[int]uint8
	feat          map[string]bool
	nontrivial    bool
}

func c09NewModel(kind int, ramSize uint8) *c09Model {
	return &c09Model{kind: kind, nb: c09Banks(kind, ramSize), ramSize: ramSize, cells: map[int]*c09Cell{}, disabledWrite: map[int]uint8{}, feat: map[string]bool{}}
}

// bank returns the selected RAM bank, or -1 when something that is not RAM is selected.
func (m *c09Model) bank() int {
	switch m.kind {
	case c09MBC1:
		if m.mode {
			return m.b2 % m.nb
		}
		return 0
	case c09MBC3:
		if m.sel < 8 {
			return m.sel % m.nb
		}
		return -1
	case c09MBC5:
		return m.sel % m.nb
	}
	return 0
}

func (m *c09Model) control(a uint16, v uint8) {
	oldEn, oldBank := m.en, m.bank()
	isCtl := false
	switch m.kind {
	case c09MBC1:
		switch {
		case a < 0x2000:
			m.en, isCtl = v&0x0f == 0x0a, true
		case a < 0x4000:
		case a < 0x6000:
			m.b2, isCtl = int(v&3), true
		default:
			m.mode, isCtl = v&1 != 0, true
		}
	case c09MBC2:
		if a < 0x4000 && a&0x0100 == 0 {
			m.en, isCtl = v&0x0f == 0x0a, true
		}
	case c09MBC3, c09MBC5:
		switch {
		case a < 0x2000:
			m.en, isCtl = v&0x0f == 0x0a, true
		case a >= 0x4000 && a < 0x6000:
			m.sel, isCtl = int(v), true
			if int(v) >= m.nb {
				m.feat["bank>=count"] = true
			}
			if m.kind == c09MBC3 && v >= 8 {
				m.feat["mbc3-select-not-ram"] = true
			}
		}
	}
	if isCtl {
		m.ctl++
	}
	if oldEn != m.en {
		m.toggles++
		m.feat["enable-toggle"] = true
	}
	if oldBank != m.bank() {
		m.switches++
		m.feat["bank-switch"] = true
	}
	if m.kind == c09MBC1 && m.mode && m.b2 >= m.nb {
		m.feat["bank>=count"] = true
	}
	if isCtl && a < 0x4000 && v&0x0f == 0x0a && v != 0x0a {
		m.feat["enable-with-upper-bits"] = true
	}
}

// key returns the cell addressed by off in the selected bank; asserted is
// false where the property leaves the location open (2 KiB parts beyond 7FF).
func (m *c09Model) key(off int) (key int, asserted bool) {
	if m.kind == c09MBC2 {
		return off & 0x1ff, true
	}
	if m.ramSize == 1 {
		return m.bank()<<13 | off&0x7ff, off < 0x800
	}
	return m.bank()<<13 | off, true
}

func (m *c09Model) write(off int, v uint8) {
	if m.kind == c09None {
		return
	}
	if !m.en {
		m.feat["disabled-access"] = true
		m.nontrivial = true
		if m.bank() >= 0 {
			k, _ := m.key(off)
			m.disabledWrite[k] = v
		}
		return
	}
	if m.bank() < 0 {
		// where this goes is not C09's business; it must not be assumed to leave RAM alone either
		for b := 0; b < m.nb; b++ {
			if c := m.cells[b<<13|off]; c != nil {
				c.known = false
			}
			if c := m.cells[b<<13|off&0x7ff]; c != nil && m.ramSize == 1 {
				c.known = false
			}
		}
		return
	}
	k, asserted := m.key(off)
	c := m.cells[k]
	if c == nil {
		c = &c09Cell{}
		m.cells[k] = c
	}
	if !asserted {
		c.known = false
		return
	}
	c.prev, c.prevOK = c.val, c.known
	c.val, c.known = v, true
	c.ctlAt, c.toggleAt, c.switchAt = m.ctl, m.toggles, m.switches
	delete(m.disabledWrite, k)
}

// read returns what the property says about a read: check=false means not asserted.
func (m *c09Model) read(off int) (want uint8, mask uint8, check bool, cell *c09Cell, k int) {
	if m.kind == c09None {
		return 0xff, 0xff, true, nil, 0
	}
	if !m.en {
		m.feat["disabled-access"] = true
		m.nontrivial = true
		return 0xff, 0xff, true, nil, 0
	}
	if m.bank() < 0 {
		return 0, 0, false, nil, 0
	}
	k, asserted := m.key(off)
	c := m.cells[k]
	if !asserted {
		return 0, 0, false, nil, k
	}
	if c == nil || !c.known {
		if m.kind == c09MBC2 {
			return 0xf0, 0xf0, true, nil, k
		}
		return 0, 0, false, nil, k
	}
	if c.toggleAt != m.toggles || c.switchAt != m.switches {
		m.nontrivial = true
		m.feat["read-back-across-toggle-or-switch"] = true
	}
	if m.kind == c09MBC2 {
		return 0xf0 | c.val&0x0f, 0xff, true, c, k
	}
	return c.val, 0xff, true, c, k
}

// ---------------------------------------------------------------------------

var c09Shared *machine.M

func c09Mapper(rom []byte) *memory.Mapper {
	if c09Shared == nil {
		c09Shared = machine.NewHW(machine.MakeROM(0, 0, 0), nil, false)
	}
	s := c09Shared
	return memory.New(rom, s.I, s.O, s.P, s.C, s.S, s.T, s.A)
}

type c09Ctx struct {
	m     *c09Model
	phase string
	step  int
}

func c09Run(c c09Case) (sig string, err error) {
	ctx := &c09Ctx{}
	sig, err = c09RunInner(c, ctx)
	if sig == "panic" && ctx.m != nil {
		m := ctx.m
		name := c09KindNames[m.kind]
		access := ctx.phase == "ram-read" || ctx.phase == "ram-write"
		switch {
		case m.kind == c09None && ctx.phase == "ram-read":
			sig = "rom-only-a000-read-panic"
		case m.kind == c09MBC3 && access && m.sel&0x0f >= 0x0d:
			sig = "mbc3-ram-bank-d-f-panic"
		case m.kind == c09MBC3 && access && m.sel&0x0f < 8 && m.sel&0x0f >= m.nb:
			sig = "mbc3-ram-bank-out-of-range-panic"
		case access && m.kind != c09MBC3 && m.sel >= m.nb:
			sig = name + "-ram-bank-out-of-range-panic"
		default:
			sig = name + "-" + ctx.phase + "-panic"
		}
		err = fmt.Errorf("%v [%s, op %d, enabled=%v select=%02x BANK2=%d MODE=%v, %d bank(s)]", err, ctx.phase, ctx.step, m.en, m.sel, m.b2, m.mode, m.nb)
	}
	return sig, err
}

// c09ROM: images of 256 KiB and more are built once per (type, sizes) - the controllers only read them.
var c09ROMs = map[[3]uint8][]byte{}

func c09ROM(cart, romSize, ramSize uint8) []byte {
	if romSize < 4 {
		return machine.MakeROM(cart, romSize, ramSize)
	}
	k := [3]uint8{cart, romSize, ramSize}
	if c09ROMs[k] == nil {
		c09ROMs[k] = machine.MakeROM(cart, romSize, ramSize)
	}
	return c09ROMs[k]
}

func c09RunInner(c c09Case, ctx *c09Ctx) (sig string, err error) {
	defer vf.Recover(&sig, &err)
	kind := c09KindOf(c.Cart)
	if kind < 0 || c.RamSize > 5 || c.RomSize > 6 {
		return "bad-case", fmt.Errorf("case outside the domain: cart %02x ram size %d rom size %d", c.Cart, c.RamSize, c.RomSize)
	}
	m := c09NewModel(kind, c.RamSize)
	name := c09KindNames[kind]
	ctx.m, ctx.phase = m, "construct"
	mp := c09Mapper(c09ROM(c.Cart, c.RomSize, c.RamSize))
	for i, op := range c.Ops {
		ctx.step = i
		switch {
		case op.K == "w" && op.A < 0x8000:
			ctx.phase = "control-write"
			mp.Write(op.A, op.V)
			m.control(op.A, op.V)
		case op.K == "w" && op.A >= 0xa000 && op.A < 0xc000:
			ctx.phase = "ram-write"
			mp.Write(op.A, op.V)
			m.write(int(op.A-0xa000), op.V)
			// an enabled write must be visible at once (side-effect-free probe): this separates
			// "the write never landed" from "the value was lost later"
			if want, mask, check, cell, _ := m.read(int(op.A - 0xa000)); check && cell != nil && m.en {
				ctx.phase = "ram-read"
				if got := mp.Read(op.A); got&mask != want&mask {
					sig := name + "-ram-write-dropped"
					if kind == c09MBC2 && got&0x0f == want&0x0f {
						sig = "mbc2-upper-nibble"
					}
					return sig, fmt.Errorf("%s ram size %d, op %d: wrote %02x to %04x while enabled (bank %d), reads back %02x want %02x", name, c.RamSize, i, op.V, op.A, m.bank(), got, want)
				}
			}
		case op.K == "r" && op.A >= 0xa000 && op.A < 0xc000:
			ctx.phase = "ram-read"
			got := mp.Read(op.A)
			want, mask, check, cell, k := m.read(int(op.A - 0xa000))
			if !check || got&mask == want&mask {
				continue
			}
			where := fmt.Sprintf("%s ram size %d, op %d: read %04x = %02x want %02x (mask %02x; enabled=%v bank=%d)", name, c.RamSize, i, op.A, got, want, mask, m.en, m.bank())
			switch {
			case kind == c09None:
				return "rom-only-a000-read-not-ff", fmt.Errorf("%s", where)
			case !m.en:
				return name + "-ram-disabled-read-not-ff", fmt.Errorf("%s", where)
			case cell == nil:
				return "mbc2-unwritten-upper-nibble", fmt.Errorf("%s: cell never written", where)
			case kind == c09MBC2 && got&0xf0 != 0xf0:
				return "mbc2-upper-nibble", fmt.Errorf("%s", where)
			}
			if dv, ok := m.disabledWrite[k]; ok && got == dv {
				return name + "-ram-disabled-write-took-effect", fmt.Errorf("%s: that is the value written while disabled", where)
			}
			switch {
			case cell.ctlAt == m.ctl:
				return name + "-ram-cell-changed", fmt.Errorf("%s: read back correctly when written, no control write since", where)
			case cell.switchAt == m.switches:
				return name + "-ram-lost-across-enable-toggle", fmt.Errorf("%s: written %d enable toggle(s) ago, same bank selection", where, m.toggles-cell.toggleAt)
			}
			return name + "-ram-bank-mismatch", fmt.Errorf("%s: written %d bank switch(es) and %d enable toggle(s) ago", where, m.switches-cell.switchAt, m.toggles-cell.toggleAt)
		case op.K == "d":
			if kind == c09None {
				continue
			}
			ctx.phase = "dump"
			d := mp.DumpRAM()
			m.feat["dump"] = true
			wantLen := m.nb * 0x2000
			switch {
			case kind == c09MBC2:
				wantLen = 512
			case c.RamSize == 1:
				wantLen = -1 // 2 KiB part: 0x800 or a full window are both fine
			}
			if wantLen >= 0 && len(d) != wantLen || wantLen < 0 && len(d) < 0x800 {
				return name + "-dump-length", fmt.Errorf("%s ram size %d, op %d: DumpRAM returned %d bytes, want %d", name, c.RamSize, i, len(d), wantLen)
			}
			var keys []int
			for k, cell := range m.cells {
				if cell.known {
					keys = append(keys, k)
				}
			}
			sort.Ints(keys)
			for _, k := range keys {
				cell := m.cells[k]
				mask := uint8(0xff)
				if kind == c09MBC2 {
					mask = 0x0f
				}
				if k >= len(d) {
					return name + "-dump-mismatch", fmt.Errorf("%s ram size %d, op %d: dump has %d bytes, cell %05x (bank %d offset %04x) missing", name, c.RamSize, i, len(d), k, k>>13, k&0x1fff)
				}
				if d[k]&mask != cell.val&mask {
					return name + "-dump-mismatch", fmt.Errorf("%s ram size %d, op %d: dump[%05x] = %02x want %02x (bank %d offset %04x)", name, c.RamSize, i, k, d[k], cell.val, k>>13, k&0x1fff)
				}
			}
		}
	}
	return "", nil
}

// c09Analyse runs the reference model alone to classify a case.
func c09Analyse(c c09Case) (class string, feats []string, nontrivial bool) {
	kind := c09KindOf(c.Cart)
	m := c09NewModel(kind, c.RamSize)
	for _, op := range c.Ops {
		switch {
		case op.K == "w" && op.A < 0x8000:
			m.control(op.A, op.V)
		case op.K == "w" && op.A >= 0xa000 && op.A < 0xc000:
			m.write(int(op.A-0xa000), op.V)
		case op.K == "r" && op.A >= 0xa000 && op.A < 0xc000:
			m.read(int(op.A - 0xa000))
		case op.K == "d":
			m.feat["dump"] = true
		}
	}
	for f := range m.feat {
		feats = append(feats, f)
	}
	sort.Strings(feats)
	if kind == c09None {
		// every read of the window of a ROM-only cartridge exercises the property
		m.nontrivial = len(c.Ops) > 0
	}
	return c09KindNames[kind], feats, m.nontrivial
}

func init() {
	for _, chk := range []string{"enable", "bank", "romonly", "hist"} {
		vf.RegisterReplay("C09/"+chk, func(raw json.RawMessage) (string, error) {
			var c c09Case
			if err := json.Unmarshal(raw, &c); err != nil {
				return "", err
			}
			return c09Run(c)
		})
	}
}

// c09Enum: see c08Enum — known findings are reported at once, of the others
// the first case per signature is kept and one (chosen by shard) reported.
type c09Enum struct {
	c     *vf.Collector
	check string
	first map[string]c09Case
	msg   map[string]string
}

func c09NewEnum(c *vf.Collector, check string) *c09Enum {
	return &c09Enum{c: c, check: check, first: map[string]c09Case{}, msg: map[string]string{}}
}

func (e *c09Enum) fail(sig string, err error, cas c09Case) {
	if e.c.OpenKnown(sig) {
		e.c.Fail(e.check, sig, err.Error(), cas)
		return
	}
	e.c.Class("violation:"+sig, 1)
	if _, ok := e.first[sig]; !ok {
		e.first[sig], e.msg[sig] = cas, err.Error()
	}
}

func (e *c09Enum) finish(t *testing.T) {
	if len(e.first) == 0 {
		return
	}
	var sigs []string
	for s := range e.first {
		sigs = append(sigs, s)
	}
	sort.Strings(sigs)
	s := sigs[e.c.Env.Shard%len(sigs)]
	e.c.Fail(e.check, s, e.msg[s], e.first[s])
	for _, s := range sigs {
		t.Errorf("%s: sig=%s %s", e.check, s, e.msg[s])
	}
}

func c09AllCarts(kinds ...int) []uint8 {
	var cs []uint8
	for _, k := range kinds {
		cs = append(cs, c09Carts[k]...)
	}
	return cs
}

func TestC09(t *testing.T) {
	c := vf.New(t, "C09", "exhaustive: every MBC cartridge type x enable-register address variant x all 256 enable bytes around a written cell; every banked type x RAM size code 0-5 x all 256 bank-select bytes after tagging every bank (ROM images of 64 KiB, 128 KiB, 1 MiB and 2 MiB alternating); "+
		"every A000-BFFF address of a ROM-only cartridge; plus rapid bus-level histories per controller over {enable byte, bank select, MBC1 mode, RAM write, RAM read, dump, unrelated control writes} with offsets drawn from a small pool so that cells are re-read. "+
		"Non-trivial: a read of a cell written earlier with at least one enable toggle or bank switch in between, or an access while disabled (ROM-only: any read). Distinct = hash of the case.")
	defer c.Flush()
	c.RunReplays()

	c.Sub("enable-bytes", func(t *testing.T) {
		en := c09NewEnum(c, "enable")
		defer en.finish(t)
		var n, nt int64
		idx := 0
		for _, cart := range c09AllCarts(c09MBC1, c09MBC2, c09MBC3, c09MBC5) {
			addrs := []uint16{0x0000, 0x1fff}
			if c09KindOf(cart) == c09MBC2 {
				addrs = []uint16{0x0000, 0x00ff, 0x1eff, 0x2000, 0x3eff}
			}
			for _, ramSize := range []uint8{0, 3} {
				for _, a := range addrs {
					for v := 0; v < 256; v++ {
						idx++
						if !c.Env.Mine(idx) {
							continue
						}
						cas := c09Case{Cart: cart, RomSize: 1, RamSize: ramSize, Ops: []c09Op{
							{K: "r", A: 0xa000}, {K: "w", A: 0xa000, V: 0x11}, // disabled at reset: FF, write ignored
							{K: "w", A: 0x0000, V: 0x0a}, {K: "w", A: 0xa123, V: 0x5c}, {K: "r", A: 0xa123},
							{K: "w", A: a, V: uint8(v)}, {K: "r", A: 0xa123}, {K: "w", A: 0xa123, V: 0xa3}, {K: "r", A: 0xa123},
							{K: "w", A: 0x0000, V: 0x0a}, {K: "r", A: 0xa123}, {K: "r", A: 0xa000}, {K: "d"}}}
						_, feats, nontriv := c09Analyse(cas)
						n++
						if nontriv {
							nt++
						}
						for _, f := range feats {
							c.Class("enable:"+f, 1)
						}
						if n%3000 == 1 {
							c.Sample("enable-byte", cas)
						}
						if sig, err := c09Run(cas); err != nil {
							en.fail(sig, err, cas)
						}
					}
				}
			}
		}
		c.Bulk("enable-byte", n, nt)
		c.Exhaustive("every MBC1/2/3/5 cartridge type x RAM size {0,3} x enable-register address variants x all 256 enable bytes (cell written before, rewritten and read after)")
	})

	c.Sub("bank-bytes", func(t *testing.T) {
		en := c09NewEnum(c, "bank")
		defer en.finish(t)
		var n, nt int64
		idx := 0
		for _, cart := range c09AllCarts(c09MBC1, c09MBC3, c09MBC5) {
			kind := c09KindOf(cart)
			for ramSize := uint8(0); ramSize <= 5; ramSize++ {
				nb := c09Banks(kind, ramSize)
				for v := 0; v < 256; v++ {
					idx++
					if !c.Env.Mine(idx) {
						continue
					}
					ops := []c09Op{{K: "w", A: 0x0000, V: 0x0a}}
					if kind == c09MBC1 {
						ops = append(ops, c09Op{K: "w", A: 0x6000, V: 0x01})
					}
					sel := min(nb, 8)
					if kind == c09MBC1 {
						sel = min(nb, 4)
					}
					for b := 0; b < sel; b++ {
						ops = append(ops, c09Op{K: "w", A: 0x4000, V: uint8(b)}, c09Op{K: "w", A: 0xa000 + uint16(b), V: uint8(0x30 + b)}, c09Op{K: "w", A: 0xa7ff, V: uint8(0xc0 + b)})
					}
					ops = append(ops, c09Op{K: "w", A: 0x5fff, V: uint8(v)})
					for b := 0; b < sel; b++ {
						ops = append(ops, c09Op{K: "r", A: 0xa000 + uint16(b)})
					}
					ops = append(ops, c09Op{K: "r", A: 0xa7ff}, c09Op{K: "w", A: 0xa7ff, V: 0x77}, c09Op{K: "w", A: 0x4000, V: 0x00}, c09Op{K: "r", A: 0xa7ff}, c09Op{K: "d"})
					if kind == c09MBC1 {
						// back to mode 0: bank 0 whatever BANK2 holds
						ops = append(ops, c09Op{K: "w", A: 0x4000, V: uint8(v)}, c09Op{K: "w", A: 0x6000, V: 0x00}, c09Op{K: "r", A: 0xa7ff}, c09Op{K: "r", A: 0xa000})
					}
					// the size of the ROM is none of the RAM's business: small, 1 MiB and 2 MiB images alternate
					cas := c09Case{Cart: cart, RomSize: []uint8{1, 5, 6, 2}[(v+int(ramSize))%4], RamSize: ramSize, Ops: ops}
					_, feats, nontriv := c09Analyse(cas)
					n++
					if nontriv {
						nt++
					}
					for _, f := range feats {
						c.Class("bank:"+f, 1)
					}
					if n%5000 == 1 {
						c.Sample("bank-byte", cas)
					}
					if sig, err := c09Run(cas); err != nil {
						en.fail(sig, err, cas)
					}
				}
			}
		}
		c.Bulk("bank-byte", n, nt)
		c.Exhaustive("every MBC1/3/5 cartridge type x RAM size code 0-5 x all 256 bank-select bytes, every selectable bank tagged first and read back after the select")
	})

	c.Sub("rom-only-window", func(t *testing.T) {
		en := c09NewEnum(c, "romonly")
		defer en.finish(t)
		var n int64
		for a := 0xa000; a < 0xc000; a++ {
			if !c.Env.Mine(a) {
				continue
			}
			cas := c09Case{Cart: 0x00, RomSize: 0, RamSize: uint8(a % 6), Ops: []c09Op{{K: "r", A: uint16(a)}, {K: "w", A: 0x0000, V: 0x0a}, {K: "w", A: uint16(a), V: 0x42}, {K: "r", A: uint16(a)}}}
			n++
			if n%300 == 1 {
				c.Sample("rom-only-read", cas)
			}
			if sig, err := c09Run(cas); err != nil {
				en.fail(sig, err, cas)
			}
		}
		c.Bulk("rom-only-read", n, n)
		c.Exhaustive("ROM-only cartridge: every address A000-BFFF read at reset and after an enable-like write and a write to the address")
	})

	for _, kind := range c09KindList {
		kind := kind
		qn, tn := 2000, 60000
		if kind == c09None {
			qn, tn = 200, 2000
		}
		c.Rapid("hist-"+c09KindNames[kind], qn, tn, func(rt *rapid.T) {
			cas := c09GenCase(rt, kind)
			class, feats, nontriv := c09Analyse(cas)
			c.Case("hist:"+class, vf.Hash(cas), nontriv, func() interface{} { return cas })
			for _, f := range feats {
				c.Class("hist:"+class+":"+f, 1)
			}
			if sig, err := c09Run(cas); err != nil {
				if !c.Fail("hist", sig, err.Error(), cas) {
					rt.Fatalf("sig=%s %v", sig, err)
				}
			}
		})
	}
}

var c09Offsets = []uint16{0x0000, 0x0001, 0x01ff, 0x0200, 0x0201, 0x03ff, 0x07ff, 0x0800, 0x0a01, 0x1000, 0x1e00, 0x1fff}

func c09GenCase(rt *rapid.T, kind int) c09Case {
	cart := rapid.SampledFrom(c09Carts[kind]).Draw(rt, "cart")
	ramSize := rapid.SampledFrom([]uint8{0, 1, 2, 3, 3, 4, 5}).Draw(rt, "ramsize")
	nb := c09Banks(kind, ramSize)
	offGen := rapid.OneOf(rapid.SampledFrom(c09Offsets), rapid.SampledFrom(c09Offsets), rapid.SampledFrom(c09Offsets),
		rapid.Map(rapid.IntRange(0, 0x1fff), func(i int) uint16 { return uint16(i) }))
	enableAddr := func(rt *rapid.T) uint16 {
		if kind == c09MBC2 {
			a := uint16(rapid.IntRange(0, 0x3fff).Draw(rt, "addr"))
			return a &^ 0x0100
		}
		return rapid.SampledFrom([]uint16{0x0000, 0x0000, 0x0100, 0x1000, 0x1fff}).Draw(rt, "addr")
	}
	opGen := rapid.Custom(func(rt *rapid.T) c09Op {
		switch rapid.IntRange(0, 15).Draw(rt, "op") {
		case 0, 1: // enable register: half of the time a value that enables
			v := rapid.Byte().Draw(rt, "val")
			if rapid.Bool().Draw(rt, "enabling") {
				v = v&0xf0 | 0x0a
			}
			return c09Op{K: "w", A: enableAddr(rt), V: v}
		case 2, 3: // bank select
			var v uint8
			switch rapid.IntRange(0, 5).Draw(rt, "bkind") {
			case 0, 1, 2:
				v = uint8(rapid.IntRange(0, max(nb-1, 3)).Draw(rt, "bank"))
			case 3:
				v = uint8(rapid.IntRange(0, 15).Draw(rt, "bank"))
			case 4:
				v = uint8(rapid.IntRange(0, 7).Draw(rt, "bank"))
			default:
				v = rapid.Byte().Draw(rt, "bank")
			}
			return c09Op{K: "w", A: rapid.SampledFrom([]uint16{0x4000, 0x4000, 0x5fff, 0x4100}).Draw(rt, "addr"), V: v}
		case 4: // MBC1 mode / MBC3 latch / nothing
			return c09Op{K: "w", A: rapid.SampledFrom([]uint16{0x6000, 0x7fff}).Draw(rt, "addr"), V: rapid.SampledFrom([]uint8{0, 1, 1, 0xfe, 0xff}).Draw(rt, "val")}
		case 5: // ROM bank registers (MBC2: A8 set): no business with RAM
			return c09Op{K: "w", A: rapid.SampledFrom([]uint16{0x2000, 0x2100, 0x3000, 0x3fff, 0x0100, 0x01ff}).Draw(rt, "addr"), V: rapid.Byte().Draw(rt, "val")}
		case 6:
			return c09Op{K: "d"}
		case 7, 8, 9, 10:
			return c09Op{K: "w", A: 0xa000 + offGen.Draw(rt, "off"), V: rapid.Byte().Draw(rt, "val")}
		default:
			return c09Op{K: "r", A: 0xa000 + offGen.Draw(rt, "off")}
		}
	})
	romSize := rapid.SampledFrom([]uint8{1, 1, 0, 2, 3, 4, 5, 6}).Draw(rt, "romsize")
	if kind == c09None {
		romSize = 0 // a ROM-only cartridge is 32 KiB
	}
	if kind == c09MBC2 && romSize > 3 {
		romSize = 3 // MBC2 addresses 16 pages at most
	}
	// a slice of short slices: rapid's slices average about six elements whatever the maximum, this
	// gives histories of ~25 operations (at most 80) that still shrink to a single operation
	var ops []c09Op
	for _, chunk := range rapid.SliceOfN(rapid.SliceOfN(opGen, 1, 10), 1, 8).Draw(rt, "ops") {
		ops = append(ops, chunk...)
	}
	return c09Case{Cart: cart, RomSize: romSize, RamSize: ramSize, Ops: ops}
}
