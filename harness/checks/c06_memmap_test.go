package checks

import (
	"encoding/json"
	"fmt"
	"sort"
	"testing"

	"pgregory.net/rapid"

	"verifharness/machine"
	"verifharness/vf"
)

// C06 — address space and I/O registers read back as on a DMG.
//
// Reference model (Pan Docs "Memory Map", "Echo RAM", "FEA0-FEFF range",
// "I/O Ranges" and the register pages): one read-back rule per address.
//
//	plain       C000-DFFF, FF80-FFFE, FFFF; with the LCD off 8000-9FFF and FE00-FE9F
//	mirror      E000-FDFF <-> C000-DDFF
//	constant    FEA0-FEFF -> 00 (LCD off), unmapped I/O -> FF, writes ignored
//	register    (last written & w) | ones: IF 1F/E0, TAC 07/F8, STAT 78/80 (bits 0-2 dynamic),
//	            LCDC SCY SCX LYC WY WX BGP TMA DMA FF, OBP0/OBP1 FC (bits 0-1 not asserted),
//	            TIMA FF while the timer is stopped, JOYP 30/C0 (low nibble is C22's)
//	never-set   LY, DIV: after a write the value is what it was, or 0
//	elsewhere   ROM, cartridge RAM, SB/SC, FF10-FF3F: other properties; executed, not compared
//
// A cell or register that has not been written in the sequence is unknown
// (power-on values are not asserted), apart from the constant bits.

type c06Op struct {
	K string `json:"k"` // "w" write, "r" read, "run" N machine cycles of the hardware, "dma" store V to FF46 and run N cycles: the next operations happen with the transfer in flight (see c06Flight), "dmaend" let it complete, "cnt" hook: place the timer's internal counter (only while the timer is stopped)
	A uint16 `json:"a,omitempty"`
	V uint8  `json:"v,omitempty"`
	N int    `json:"n,omitempty"`
}

type c06Case struct {
	Cart uint8   `json:"cart"`
	Ops  []c06Op `json:"ops"`
	// CGB: cartridge header byte 0143 (00, 80 "colour enhanced", C0 "colour only"): a DMG runs all of them the same
	CGB uint8 `json:"cgb,omitempty"`
}

type c06Reg struct {
	name string
	w    uint8 // bits that read back as written
	ones uint8 // bits that always read 1
}

var c06Regs = map[uint16]c06Reg{
	0xff00: {"joyp", 0x30, 0xc0},
	0xff06: {"tma", 0xff, 0},
	0xff07: {"tac", 0x07, 0xf8},
	0xff0f: {"if", 0x1f, 0xe0},
	0xff40: {"lcdc", 0xff, 0},
	0xff41: {"stat", 0x78, 0x80},
	0xff42: {"scy", 0xff, 0},
	0xff43: {"scx", 0xff, 0},
	0xff45: {"lyc", 0xff, 0},
	0xff46: {"ff46", 0xff, 0},
	0xff47: {"bgp", 0xff, 0},
	0xff48: {"obp0", 0xfc, 0},
	0xff49: {"obp1", 0xfc, 0},
	0xff4a: {"wy", 0xff, 0},
	0xff4b: {"wx", 0xff, 0},
}

func c06Unmapped(a uint16) bool {
	switch {
	case a == 0xff03, a >= 0xff08 && a <= 0xff0e, a == 0xff15, a == 0xff1f, a >= 0xff27 && a <= 0xff2f, a >= 0xff4c && a <= 0xff7f:
		return true
	}
	return false
}

func c06Region(a uint16) string {
	switch {
	case a < 0x8000:
		return "rom"
	case a < 0xa000:
		return "vram"
	case a < 0xc000:
		return "cartram"
	case a < 0xe000:
		return "wram"
	case a < 0xfe00:
		return "echo"
	case a < 0xfea0:
		return "oam"
	case a < 0xff00:
		return "fea0-feff"
	case a < 0xff80:
		if c06Unmapped(a) {
			return "unmapped-io"
		}
		if r, ok := c06Regs[a]; ok {
			return r.name
		}
		switch a {
		case 0xff04:
			return "div"
		case 0xff05:
			return "tima"
		case 0xff44:
			return "ly"
		case 0xff01, 0xff02:
			return "serial"
		}
		return "apu"
	case a < 0xffff:
		return "hram"
	}
	return "ie"
}

type c06Cell struct {
	v   uint8
	via uint16 // the address it was written through
}

type c06Model struct {
	cell       map[uint16]c06Cell // plain memory by canonical address; absent = unknown
	last       map[uint16]int     // registers: last written value
	ifDirty    bool               // cycles ran or another location was written since IF was written: requests may have been added
	wroteConst map[uint16]bool
	lcdOn      bool
	// timer
	stoppedFor int // cycles with TAC.enable = 0 (-1: running)
	tima       int // -1 unknown
	timaPrev   int // what TIMA read just before the last TIMA write, for the diagnosis
	tmaAfter   int // last TMA value written after the last TIMA write, -1 none
	feat       map[string]bool
	nontrivial bool
}

func c06NewModel() *c06Model {
	return &c06Model{cell: map[uint16]c06Cell{}, last: map[uint16]int{}, wroteConst: map[uint16]bool{}, lcdOn: true, stoppedFor: 1 << 20, tima: -1, timaPrev: -1, tmaAfter: -1, feat: map[string]bool{}}
}

func c06Canon(a uint16) uint16 {
	if a >= 0xe000 && a < 0xfe00 {
		return a - 0x2000
	}
	return a
}

func c06Plain(a uint16) bool {
	return a >= 0x8000 && a < 0xa000 || a >= 0xc000 && a < 0xfea0 || a >= 0xff80
}

// skip reports operations outside the stated domain: VRAM/OAM with the LCD on.
func (m *c06Model) skip(cart uint8, op c06Op) bool {
	if op.K != "w" && op.K != "r" {
		return false
	}
	if m.lcdOn && (op.A >= 0x8000 && op.A < 0xa000 || op.A >= 0xfe00 && op.A < 0xff00) {
		return true
	}
	// the A000-BFFF window of a ROM-only cartridge is C09's: no reads of it, no DMA out of it
	if cart == 0x00 && op.K == "w" && op.A == 0xff46 && op.V >= 0xa0 && op.V < 0xc0 {
		return true
	}
	return op.K == "r" && cart == 0x00 && op.A >= 0xa000 && op.A < 0xc000
}

func (m *c06Model) ran(n int) {
	if n <= 0 {
		return
	}
	m.ifDirty = true
	if m.stoppedFor >= 0 {
		m.stoppedFor += n
	} else {
		m.tima = -1
	}
	m.feat["cycles-run"] = true
}

func (m *c06Model) write(a uint16, v uint8) {
	m.ifDirty = a != 0xff0f
	switch {
	case c06Plain(a):
		m.cell[c06Canon(a)] = c06Cell{v, a}
	case a >= 0xfea0 && a < 0xff00, c06Unmapped(a):
		m.wroteConst[a] = true
	case a == 0xff05:
		if m.stoppedFor >= 8 {
			m.tima = int(v)
			m.feat["tima-written-stopped"] = true
		} else {
			m.tima = -1
		}
		m.tmaAfter = -1
	case a == 0xff04, a == 0xff44:
		// never take the written value: handled by the runner
	default:
		if _, ok := c06Regs[a]; ok {
			m.last[a] = int(v)
		}
		switch a {
		case 0xff40:
			if m.lcdOn != (v&0x80 != 0) {
				m.feat["lcd-switch"] = true
			}
			m.lcdOn = v&0x80 != 0
		case 0xff06:
			m.tmaAfter = int(v)
		case 0xff07:
			if v&0x04 != 0 {
				m.stoppedFor, m.tima = -1, -1
				m.feat["timer-started"] = true
			} else if m.stoppedFor < 0 {
				m.stoppedFor, m.tima = 0, -1
			}
		case 0xff46:
			// the transfer is run to completion by the runner: OAM now holds the source bytes
			for x := uint16(0xfe00); x < 0xfea0; x++ {
				delete(m.cell, x)
			}
			m.feat["dma"] = true
		}
	}
}

// expect returns the predicted value of a read and the mask of predicted bits.
func (m *c06Model) expect(a uint16) (want, mask uint8, why string) {
	switch {
	case c06Plain(a):
		if c, ok := m.cell[c06Canon(a)]; ok {
			m.nontrivial = true
			if c.via != a {
				m.feat["read-through-mirror"] = true
			}
			return c.v, 0xff, "plain"
		}
		return 0, 0, ""
	case a >= 0xfea0 && a < 0xff00:
		if m.wroteConst[a] {
			m.nontrivial = true
		}
		return 0x00, 0xff, "const"
	case c06Unmapped(a):
		if m.wroteConst[a] {
			m.nontrivial = true
		}
		return 0xff, 0xff, "const"
	case a == 0xff05:
		if m.tima >= 0 && m.stoppedFor >= 8 {
			m.nontrivial = true
			return uint8(m.tima), 0xff, "tima"
		}
		return 0, 0, ""
	}
	r, ok := c06Regs[a]
	if !ok {
		return 0, 0, ""
	}
	want, mask = r.ones, r.ones
	if v, ok := m.last[a]; ok {
		m.nontrivial = true
		if a == 0xff0f && m.ifDirty {
			// requests raised by the hardware (or by a register write's side effect) since can only add bits: checked as a superset
			return want | uint8(v)&r.w, mask, "if-superset"
		}
		want |= uint8(v) & r.w
		mask |= r.w
	}
	return want, mask, "reg"
}

// ---------------------------------------------------------------------------

// observation counters for OBP0/OBP1 bits 0-1 (reported as classes, never a failure)
var c06ObpAsWritten, c06ObpNotAsWritten int64

type c06Ctx struct {
	op   c06Op
	step int
}

func c06Run(c c06Case) (sig string, err error) {
	ctx := &c06Ctx{step: -1}
	sig, err = c06RunInner(c, ctx)
	if sig == "panic" {
		kind := map[string]string{"w": "write", "r": "read", "run": "run", "cnt": "hook"}[ctx.op.K]
		sig = "panic-" + kind + "-" + c06Region(ctx.op.A)
		err = fmt.Errorf("%v [op %d: %+v]", err, ctx.step, ctx.op)
	}
	return sig, err
}

var c06ROMs = map[[2]uint8][]byte{}

// c06ROM returns the (cached, never modified) image for a cartridge type and colour flag.
func c06ROM(cart, cgb uint8) []byte {
	rom, ok := c06ROMs[[2]uint8{cart, cgb}]
	if !ok {
		switch cart {
		case 0x00:
			rom = machine.MakeROM(0x00, 0, 0)
		case 0x03:
			rom = machine.MakeROM(0x03, 1, 3)
		default:
			rom = machine.MakeROM(0x1b, 1, 3)
		}
		rom[0x143] = cgb
		c06ROMs[[2]uint8{cart, cgb}] = rom
	}
	return rom
}

func c06RunInner(c c06Case, ctx *c06Ctx) (sig string, err error) {
	defer vf.Recover(&sig, &err)
	if (c.Cart != 0x00 && c.Cart != 0x03 && c.Cart != 0x1b) || (c.CGB != 0 && c.CGB != 0x80 && c.CGB != 0xc0) {
		return "bad-case", fmt.Errorf("cart %02x / colour flag %02x outside the domain", c.Cart, c.CGB)
	}
	hw := machine.NewHW(c06ROM(c.Cart, c.CGB), nil, false)
	mp := hw.Mp
	m := c06NewModel()
	// LY is read-only: a store to it is a no-op. A twin machine gets the same history without those stores; once a
	// machine cycle has elapsed after a store, LY and STAT must read the same on both (within that very cycle a
	// guest cannot read, and what LY shows there is not asserted).
	twin := machine.NewHW(c06ROM(c.Cart, c.CGB), nil, false)
	sinceLYStore := -1 // machine cycles since the last store to LY (-1: none yet)
	var flight c06Flight
	idle := func(n int) {
		for k := 0; k < n; k++ {
			hw.HW()
			twin.HW()
		}
		if sinceLYStore >= 0 {
			sinceLYStore += n
		}
	}
	hot := -1 // >= 0: the operation is a "dma": cycles to run after the store to FF46 before the next operation
	for i, op := range c.Ops {
		ctx.op, ctx.step = op, i
		if n := flight.before(op); n > 0 {
			idle(n)
			m.ran(n)
		}
		hot = -1
		switch op.K {
		case "dmaend":
			continue
		case "dma":
			if op.V < 0xc0 || op.V > 0xdf || op.N < 0 || op.N > 160 {
				return "bad-case", fmt.Errorf("op %d: in-flight transfers are generated from work RAM pages with a lead of 0..160 cycles", i)
			}
			hot = op.N
			op = c06Op{K: "w", A: 0xff46, V: op.V}
		}
		if m.skip(c.Cart, op) {
			continue
		}
		switch op.K {
		case "run":
			if op.N < 0 || op.N > 100000 {
				return "bad-case", fmt.Errorf("op %d: run length outside 0..100000", i)
			}
			for k := 0; k < op.N; k++ {
				hw.HW()
				twin.HW()
			}
			flight.ran(op.N)
			if sinceLYStore >= 0 {
				sinceLYStore += op.N
			}
			if sinceLYStore >= 1 {
				for _, a := range []uint16{0xff44, 0xff41} {
					if g, w := mp.Read(a), twin.Mp.Read(a); g != w {
						return "ly-store-disturbs-lcd", fmt.Errorf("op %d: %d machine cycle(s) after a store to LY, %04x reads %02x; the same history without that store gives %02x", i, sinceLYStore, a, g, w)
					}
				}
			}
			m.ran(op.N)
		case "cnt":
			if m.stoppedFor >= 8 {
				hw.T.VerifSetCounter(uint16(op.N) &^ 3)
				twin.T.VerifSetCounter(uint16(op.N) &^ 3)
				m.feat["counter-placed"] = true
			}
		case "w":
			var before uint8
			if op.A == 0xff04 || op.A == 0xff44 || op.A == 0xff05 {
				before = mp.Read(op.A)
			}
			if op.A == 0xff05 {
				m.timaPrev = int(before)
			}
			mp.Write(op.A, op.V)
			if op.A == 0xff44 {
				sinceLYStore = 0
			} else {
				twin.Mp.Write(op.A, op.V)
			}
			m.write(op.A, op.V)
			switch op.A {
			case 0xff04, 0xff44:
				after := mp.Read(op.A)
				if after != before && after != 0 {
					return c06Region(op.A) + "-took-written-value", fmt.Errorf("op %d: %04x was %02x, wrote %02x, now reads %02x (want %02x or 00)", i, op.A, before, op.V, after, before)
				}
				if op.V != before && op.V != 0 {
					m.nontrivial = true
				}
			case 0xff46:
				if hot >= 0 {
					// what follows happens while the transfer is in flight
					idle(hot)
					m.ran(hot)
					flight.left = 170 - hot
					m.feat["operations-during-dma"] = true
					break
				}
				// no transfer in flight for what follows
				for k := 0; k < 170; k++ {
					hw.HW()
					twin.HW()
				}
				if sinceLYStore >= 0 {
					sinceLYStore += 170
				}
				m.ran(170)
			}
		case "r":
			got := mp.Read(op.A)
			twin.Mp.Read(op.A)
			want, mask, why := m.expect(op.A)
			if op.A == 0xff48 || op.A == 0xff49 {
				if v, ok := m.last[op.A]; ok && v&3 != 0 {
					// observation only (DESIGN.md C06 "Not asserted"): the DMG reads these bits back
					if got&3 == uint8(v)&3 {
						c06ObpAsWritten++
					} else {
						c06ObpNotAsWritten++
					}
				}
			}
			if why == "if-superset" {
				if got&0xe0 != 0xe0 || got&want != want {
					return "if-readback", fmt.Errorf("op %d: IF = %02x, wrote %02x earlier and nothing but the hardware can have changed it since: want at least %02x", i, got, m.last[op.A], want)
				}
				continue
			}
			if got&mask == want&mask {
				continue
			}
			where := fmt.Errorf("op %d: read %04x = %02x want %02x (mask %02x, %s, LCD on=%v)", i, op.A, got, want, mask, c06Region(op.A), m.lcdOn)
			switch why {
			case "plain":
				if c := m.cell[c06Canon(op.A)]; c.via != op.A {
					return "echo-mirror-mismatch", fmt.Errorf("%v: written through %04x", where, c.via)
				}
				return c06Region(op.A) + "-readback", where
			case "const":
				if op.A < 0xff00 {
					return "fea0-feff-not-zero", where
				}
				return "unmapped-io-not-ff", where
			case "tima":
				switch {
				case m.tmaAfter >= 0 && int(got) == m.tmaAfter:
					return "tma-write-lands-in-tima", fmt.Errorf("%v: that is the value written to TMA after the TIMA write, with the timer stopped for %d cycles", where, m.stoppedFor)
				case int(got) == m.timaPrev:
					return "tima-write-dropped-stopped-timer", fmt.Errorf("%v: timer stopped for %d cycles, internal counter %04x", where, m.stoppedFor, hw.T.VerifCounter())
				}
				return "tima-readback", where
			}
			r := c06Regs[op.A]
			if (got^want)&r.ones != 0 {
				return r.name + "-unused-bits", where
			}
			return r.name + "-readback", where
		default:
			return "bad-case", fmt.Errorf("op %d: unknown kind %q", i, op.K)
		}
	}
	return "", nil
}

// c06Flight: a transfer started by a "dma" operation is NOT run to completion at once: the operations that follow
// happen while it is in flight (on a DMG only OAM is out of reach then - every other location and every register
// reads and writes as usual). It is completed before anything that touches FE00-FEFF or FF46, before a counter
// placement, at a "dmaend" operation, and at the end of the case. Both passes (runner and classifier) use this.
type c06Flight struct{ left int }

// before returns the number of machine cycles to run before op (completing the transfer), or 0.
func (f *c06Flight) before(op c06Op) int {
	if f.left <= 0 {
		return 0
	}
	touches := (op.K == "w" || op.K == "r") && (op.A >= 0xfe00 && op.A <= 0xfeff || op.A == 0xff46)
	if op.K == "dmaend" || op.K == "dma" || op.K == "cnt" || touches {
		n := f.left
		f.left = 0
		return n
	}
	return 0
}

func (f *c06Flight) ran(n int) {
	if f.left -= n; f.left < 0 {
		f.left = 0
	}
}

// c06Analyse runs the model alone to classify a case.
func c06Analyse(c c06Case) (feats []string, nontrivial bool) {
	m := c06NewModel()
	skipped := 0
	var flight c06Flight
	for _, op := range c.Ops {
		if n := flight.before(op); n > 0 {
			m.ran(n)
		}
		hot := -1
		switch op.K {
		case "dmaend":
			continue
		case "dma":
			hot = op.N
			op = c06Op{K: "w", A: 0xff46, V: op.V}
		}
		if m.skip(c.Cart, op) {
			skipped++
			continue
		}
		switch op.K {
		case "run":
			m.ran(op.N)
			flight.ran(op.N)
		case "cnt":
			if m.stoppedFor >= 8 {
				m.feat["counter-placed"] = true
			}
		case "w":
			m.write(op.A, op.V)
			if op.A == 0xff04 || op.A == 0xff44 {
				m.nontrivial = true
				m.feat["write-"+c06Region(op.A)] = true
			}
			if op.A == 0xff46 {
				if hot >= 0 {
					m.ran(hot)
					flight.left = 170 - hot
					m.feat["operations-during-dma"] = true
				} else {
					m.ran(170)
				}
			}
		case "r":
			if _, mask, _ := m.expect(op.A); mask != 0 {
				m.feat["checked-read-"+c06Region(op.A)] = true
			}
		}
	}
	if skipped > 0 {
		m.feat["skipped-vram-oam-lcd-on"] = true
	}
	for f := range m.feat {
		feats = append(feats, f)
	}
	sort.Strings(feats)
	return feats, m.nontrivial
}

func init() {
	for _, chk := range []string{"sweep", "seq"} {
		vf.RegisterReplay("C06/"+chk, func(raw json.RawMessage) (string, error) {
			var c c06Case
			if err := json.Unmarshal(raw, &c); err != nil {
				return "", err
			}
			return c06Run(c)
		})
	}
}

type c06Enum struct {
	c     *vf.Collector
	check string
	first map[string]c06Case
	msg   map[string]string
}

func c06NewEnum(c *vf.Collector, check string) *c06Enum {
	return &c06Enum{c: c, check: check, first: map[string]c06Case{}, msg: map[string]string{}}
}

func (e *c06Enum) fail(sig string, err error, cas c06Case) {
	if e.c.OpenKnown(sig) {
		e.c.Fail(e.check, sig, err.Error(), cas)
		return
	}
	e.c.Class("violation:"+sig, 1)
	if _, ok := e.first[sig]; !ok {
		e.first[sig], e.msg[sig] = cas, err.Error()
	}
}

func (e *c06Enum) finish(t *testing.T) {
	if len(e.first) == 0 {
		return
	}
	var sigs []string
	for s := range e.first {
		sigs = append(sigs, s)
	}
	sort.Strings(sigs)
	s := sigs[e.c.Env.Shard%len(sigs)]
	e.c.Fail(e.check, s, e.msg[s], e.first[s])
	for _, s := range sigs {
		t.Errorf("%s: sig=%s %s", e.check, s, e.msg[s])
	}
}

// c06SweepOps: read, write, read back through the address and through its mirror.
func c06SweepOps(a uint16, v uint8) []c06Op {
	ops := []c06Op{{K: "r", A: a}, {K: "w", A: a, V: v}, {K: "r", A: a}}
	switch {
	case a >= 0xc000 && a < 0xde00:
		ops = append(ops, c06Op{K: "r", A: a + 0x2000})
	case a >= 0xe000 && a < 0xfe00:
		ops = append(ops, c06Op{K: "r", A: a - 0x2000})
	}
	return ops
}

// c06SweepCase covers addresses a..a+n-1 with one value on a machine fresh from
// power-on (the LCD is switched off first where the addresses need it). I/O
// registers are swept one address per machine, memory in chunks.
func c06SweepCase(a uint16, n int, v uint8) c06Case {
	cas := c06Case{Cart: []uint8{0x00, 0x03, 0x1b}[int(a>>6)%3], CGB: []uint8{0x00, 0x80, 0xc0, 0x00}[int(v>>1)%4]}
	if a >= 0x8000 && a < 0xa000 || a >= 0xfe00 && a < 0xff00 {
		cas.Ops = append(cas.Ops, c06Op{K: "w", A: 0xff40, V: 0x11})
	}
	for k := 0; k < n; k++ {
		cas.Ops = append(cas.Ops, c06SweepOps(a+uint16(k), v)...)
	}
	return cas
}

func c06IsIO(a int) bool { return a >= 0xff00 && a < 0xff80 || a == 0xffff }

func TestC06(t *testing.T) {
	c := vf.New(t, "C06", "exhaustive single-write sweep: every I/O address FF00-FF7F and FFFF x all 256 values, each on a machine fresh from power-on; every memory address 0000-FEFF and FF80-FFFE x {00,FF,55,AA,walking bit} (quick) / all 256 values (thorough) in chunks of 64 addresses per fresh machine, "+
		"each read before the write, written, read back through the address and through its mirror; plus rapid sequences of write/read/run-cycles/place-timer-counter operations over the whole address space with a boundary-weighted address generator and small per-region address pools, "+
		"on ROM-only, MBC1+RAM and MBC5+RAM cartridges (header colour flag 00, 80 or C0: a DMG treats them alike), VRAM/OAM operations only with the LCD off and every DMA run to completion. Non-trivial: a checked read whose predicted value depends on an earlier write in the same sequence, a read of a constant region after a write to it, "+
		"or a write to LY/DIV of a value other than the current one and 0. Distinct = hash of the case; sweep cases are distinct by construction and counted per (address, value).")
	defer c.Flush()
	c.RunReplays()
	thorough := c.Env.Thorough()

	c.Sub("single-write-sweep", func(t *testing.T) {
		en := c06NewEnum(c, "sweep")
		defer en.finish(t)
		quickVals := []uint8{0x00, 0xff, 0x55, 0xaa, 0x01, 0x02, 0x04, 0x08, 0x10, 0x20, 0x40, 0x80}
		var allVals []uint8
		for v := 0; v < 256; v++ {
			allVals = append(allVals, uint8(v))
		}
		var n, nt int64
		idx := 0
		for a := 0; a < 0x10000; {
			chunk := 64
			vals := quickVals
			if c06IsIO(a) {
				chunk = 1
			}
			if thorough || c06IsIO(a) {
				vals = allVals
			}
			for _, v := range vals {
				idx++
				if !c.Env.Mine(idx) {
					continue
				}
				cas := c06SweepCase(uint16(a), chunk, v)
				n += int64(chunk)
				// a write followed by a read of a modelled location is non-trivial by the rule
				if r := c06Region(uint16(a)); r != "rom" && r != "cartram" && r != "apu" && r != "serial" {
					nt += int64(chunk)
				}
				c.Class("sweep:"+c06Region(uint16(a)), int64(chunk))
				if idx%3000 == 1 {
					c.Sample("sweep", cas)
				}
				sig, err := c06Run(cas)
				if err != nil && chunk > 1 {
					// name the address: re-run the chunk one address per fresh machine
					for k := 0; k < chunk; k++ {
						one := c06SweepCase(uint16(a+k), 1, v)
						if s1, e1 := c06Run(one); e1 != nil {
							sig, err, cas = s1, e1, one
							break
						}
					}
				}
				if err != nil {
					en.fail(sig, err, cas)
				}
			}
			a += chunk
		}
		c.Bulk("sweep", n, nt)
		if thorough {
			c.Exhaustive("single write from power-on: every address 0000-FFFF x all 256 values (memory in chunks of 64 addresses per machine)")
		} else {
			c.Exhaustive("single write from power-on: FF00-FF7F and FFFF x all 256 values; every address 0000-FEFF, FF80-FFFE x {00,FF,55,AA,01,02,04,08,10,20,40,80} (chunks of 64 addresses per machine)")
		}
	})

	defer func() {
		c.Class("observation:obp-bits-0-1-read-as-written", c06ObpAsWritten)
		c.Class("observation:obp-bits-0-1-read-not-as-written", c06ObpNotAsWritten)
	}()

	c.Rapid("sequences", 5000, 150000, func(rt *rapid.T) {
		cas := c06GenCase(rt)
		feats, nontriv := c06Analyse(cas)
		c.Case(fmt.Sprintf("seq:cart-%02x", cas.Cart), vf.Hash(cas), nontriv, func() interface{} { return cas })
		for _, f := range feats {
			c.Class("seq:"+f, 1)
		}
		sig, err := c06Run(cas)
		if err != nil {
			if !c.OpenKnown(sig) && len(cas.Ops) <= 24 {
				cas, err = c06Minimise(cas, sig, err) // once rapid has made the case small, finish the job
			}
			if !c.Fail("seq", sig, err.Error(), cas) {
				rt.Fatalf("sig=%s %v", sig, err)
			}
		}
	})
}

// c06Minimise drops operations one at a time while the failure keeps its
// signature (rapid cannot shrink inside the generator's operation groups).
func c06Minimise(cas c06Case, sig string, err error) (c06Case, error) {
	for again := true; again; {
		again = false
		for i := len(cas.Ops) - 1; i >= 0; i-- {
			try := c06Case{Cart: cas.Cart, CGB: cas.CGB, Ops: append(append([]c06Op{}, cas.Ops[:i]...), cas.Ops[i+1:]...)}
			if s, e := c06Run(try); e != nil && s == sig {
				cas, err, again = try, e, true
			}
		}
	}
	return cas, err
}

var c06Boundaries = []uint16{0x0000, 0x3fff, 0x4000, 0x7fff, 0x8000, 0x9fff, 0xa000, 0xbfff, 0xc000, 0xddff, 0xde00, 0xdfff, 0xe000, 0xfdff, 0xfe00, 0xfe9f, 0xfea0, 0xfeff, 0xff00, 0xff7f, 0xff80, 0xfffe, 0xffff}
var c06Named = []uint16{0xff00, 0xff01, 0xff02, 0xff04, 0xff05, 0xff06, 0xff07, 0xff0f, 0xff40, 0xff41, 0xff42, 0xff43, 0xff44, 0xff45, 0xff46, 0xff47, 0xff48, 0xff49, 0xff4a, 0xff4b, 0xffff,
	0xff05, 0xff06, 0xff04, 0xff46, 0xff41, 0xff0f, 0xff07}
var c06Pool = []uint16{0xc000, 0xc123, 0xcfff, 0xd000, 0xddff, 0xde00, 0xdfff, 0xe000, 0xe123, 0xefff, 0xf000, 0xfdff,
	0x8000, 0x9234, 0x9fff, 0xfe00, 0xfe50, 0xfe9f, 0xfea0, 0xfeff, 0xff80, 0xffa5, 0xfffe}
var c06UnmappedList = []uint16{0xff03, 0xff08, 0xff0e, 0xff15, 0xff1f, 0xff27, 0xff2f, 0xff4c, 0xff4d, 0xff50, 0xff70, 0xff7f}
var c06RegList = []uint16{0xff00, 0xff06, 0xff07, 0xff0f, 0xff40, 0xff41, 0xff42, 0xff43, 0xff45, 0xff46, 0xff47, 0xff48, 0xff49, 0xff4a, 0xff4b, 0xffff, 0xff04, 0xff44}
var c06RunLens = []int{1, 1, 2, 3, 8, 20, 114, 456, 1000, 4096, 16384, 17556}

func c06GenCase(rt *rapid.T) c06Case {
	addrGen := rapid.Custom(func(rt *rapid.T) uint16 {
		switch rapid.IntRange(0, 11).Draw(rt, "akind") {
		case 0, 1, 2:
			return rapid.SampledFrom(c06Pool).Draw(rt, "addr")
		case 3, 4, 5:
			return rapid.SampledFrom(c06Named).Draw(rt, "addr")
		case 6:
			return rapid.SampledFrom(c06Boundaries).Draw(rt, "addr")
		case 7:
			return rapid.SampledFrom(c06UnmappedList).Draw(rt, "addr")
		case 8:
			return uint16(rapid.IntRange(0xff00, 0xffff).Draw(rt, "addr"))
		case 9:
			return uint16(rapid.IntRange(0xc000, 0xfeff).Draw(rt, "addr"))
		default:
			return uint16(rapid.IntRange(0, 0xffff).Draw(rt, "addr"))
		}
	})
	writeGen := rapid.Custom(func(rt *rapid.T) c06Op {
		a := addrGen.Draw(rt, "a")
		v := rapid.Byte().Draw(rt, "v")
		if a == 0xff40 && rapid.IntRange(0, 3).Draw(rt, "lcd-off") != 0 {
			v &^= 0x80 // mostly keep the LCD off so that VRAM/OAM stay in the domain
		}
		if a == 0xff07 && rapid.IntRange(0, 3).Draw(rt, "timer-off") != 0 {
			v &^= 0x04 // mostly keep the timer stopped so that TIMA is a plain register
		}
		return c06Op{K: "w", A: a, V: v}
	})
	runGen := rapid.Custom(func(rt *rapid.T) c06Op {
		if rapid.Bool().Draw(rt, "short") {
			return c06Op{K: "run", N: rapid.IntRange(0, 300).Draw(rt, "n")}
		}
		return c06Op{K: "run", N: rapid.SampledFrom(c06RunLens).Draw(rt, "n")}
	})
	cntGen := rapid.Custom(func(rt *rapid.T) c06Op {
		// a phase of the timer's 16-bit counter: around the wrap and anywhere
		if rapid.Bool().Draw(rt, "edge") {
			return c06Op{K: "cnt", N: rapid.SampledFrom([]int{0x0000, 0x0004, 0xfff4, 0xfff8, 0xfffc, 0x0008}).Draw(rt, "n")}
		}
		return c06Op{K: "cnt", N: rapid.IntRange(0, 0x3fff).Draw(rt, "n") * 4}
	})
	// the mirror (or the address itself) through which a location is read back
	alias := func(rt *rapid.T, a uint16) uint16 {
		if rapid.Bool().Draw(rt, "mirror") {
			switch {
			case a >= 0xc000 && a < 0xde00:
				return a + 0x2000
			case a >= 0xe000 && a < 0xfe00:
				return a - 0x2000
			}
		}
		return a
	}
	// an operation, or a short group built around one location so that reads hit written locations
	opGen := rapid.Custom(func(rt *rapid.T) []c06Op {
		switch rapid.IntRange(0, 19).Draw(rt, "op") {
		case 0, 1:
			return []c06Op{runGen.Draw(rt, "run")}
		case 2:
			return []c06Op{cntGen.Draw(rt, "cnt")}
		case 3, 4, 5:
			return []c06Op{writeGen.Draw(rt, "w")}
		case 6, 7, 8:
			return []c06Op{{K: "r", A: addrGen.Draw(rt, "a")}}
		case 9, 10, 11:
			w := writeGen.Draw(rt, "w")
			return []c06Op{w, {K: "r", A: alias(rt, w.A)}}
		case 12:
			w := writeGen.Draw(rt, "w")
			return []c06Op{w, writeGen.Draw(rt, "w2"), {K: "r", A: alias(rt, w.A)}}
		case 14:
			// a transfer in flight: one to three accesses to anything but OAM while it runs
			ops := []c06Op{{K: "dma", V: uint8(rapid.IntRange(0xc0, 0xdf).Draw(rt, "page")), N: rapid.SampledFrom([]int{0, 1, 2, 5, 40, 100, 158, 160}).Draw(rt, "lead")}}
			for k := rapid.IntRange(1, 3).Draw(rt, "inflight"); k > 0; k-- {
				if rapid.Bool().Draw(rt, "reg") {
					a := rapid.SampledFrom(c06RegList).Draw(rt, "reg-a")
					v := rapid.Byte().Draw(rt, "reg-v")
					if a == 0xff40 {
						v &^= 0x80
					}
					if a == 0xff07 {
						v &^= 0x04
					}
					if a != 0xff46 {
						ops = append(ops, c06Op{K: "w", A: a, V: v}, c06Op{K: "r", A: a})
					}
				} else {
					w := writeGen.Draw(rt, "w")
					ops = append(ops, w, c06Op{K: "r", A: alias(rt, w.A)})
				}
			}
			return append(ops, c06Op{K: "dmaend"})
		case 13:
			// a store to an address the DMG leaves unmapped (where a Game Boy Color has its bank, speed and palette
			// registers) between a write and a read of a plain location: nothing may move
			w := c06Op{K: "w", A: uint16(rapid.SampledFrom([]int{0x8000 + 0x123, 0xc000, 0xc123, 0xd000, 0xd123, 0xdfff, 0xf123, 0xff80}).Draw(rt, "plain")), V: rapid.Byte().Draw(rt, "pv")}
			u := uint16(rapid.SampledFrom([]int{0xff70, 0xff70, 0xff4f, 0xff4d, 0xff4c, 0xff50, 0xff51, 0xff55, 0xff56, 0xff68, 0xff69, 0xff6a, 0xff6b, 0xff6c, 0xff72, 0xff75, 0xff7f, 0xff03, 0xff08, 0xff15, 0xff1f, 0xff27}).Draw(rt, "unmapped"))
			return []c06Op{w, {K: "w", A: u, V: rapid.Byte().Draw(rt, "uv")}, {K: "r", A: alias(rt, w.A)}, {K: "r", A: u}}
		case 15:
			w := writeGen.Draw(rt, "w")
			return []c06Op{w, runGen.Draw(rt, "run"), {K: "r", A: alias(rt, w.A)}}
		case 16, 17:
			// timer group: the timer is stopped, its counter is placed, DIV/TIMA/TMA are written in some order, TIMA is read
			ops := []c06Op{{K: "w", A: 0xff07, V: rapid.Byte().Draw(rt, "tac") &^ 0x04}, {K: "run", N: rapid.IntRange(8, 40).Draw(rt, "settle")}}
			if rapid.Bool().Draw(rt, "place") {
				ops = append(ops, cntGen.Draw(rt, "cnt"))
			}
			for _, k := range rapid.SliceOfN(rapid.IntRange(0, 3), 1, 4).Draw(rt, "order") {
				switch k {
				case 0:
					ops = append(ops, c06Op{K: "w", A: 0xff04, V: rapid.Byte().Draw(rt, "v")})
				case 1:
					ops = append(ops, c06Op{K: "w", A: 0xff05, V: rapid.Byte().Draw(rt, "v")})
				case 2:
					ops = append(ops, c06Op{K: "w", A: 0xff06, V: rapid.Byte().Draw(rt, "v")})
				default:
					ops = append(ops, c06Op{K: "r", A: 0xff05})
				}
			}
			return append(ops, c06Op{K: "r", A: 0xff05}, c06Op{K: "r", A: 0xff06})
		default:
			// one register from the table: write, read
			a := rapid.SampledFrom(c06RegList).Draw(rt, "reg")
			v := rapid.Byte().Draw(rt, "v")
			if a == 0xff40 {
				v &^= 0x80
			}
			if a == 0xff07 {
				v &^= 0x04
			}
			return []c06Op{{K: "w", A: a, V: v}, {K: "r", A: a}}
		}
	})
	cas := c06Case{Cart: rapid.SampledFrom([]uint8{0x00, 0x03, 0x1b}).Draw(rt, "cart"), CGB: rapid.SampledFrom([]uint8{0x00, 0x00, 0x80, 0xc0}).Draw(rt, "cgb-flag")}
	if rapid.IntRange(0, 3).Draw(rt, "start-lcd-off") != 0 {
		cas.Ops = append(cas.Ops, c06Op{K: "w", A: 0xff40, V: rapid.Byte().Draw(rt, "lcdc") &^ 0x80})
	}
	for _, chunk := range rapid.SliceOfN(rapid.SliceOfN(opGen, 1, 8), 1, 8).Draw(rt, "ops") {
		for _, group := range chunk {
			cas.Ops = append(cas.Ops, group...)
		}
	}
	return cas
}
