// Package refcpu is an instruction-level reference model of the SM83,
// written from the public opcode documentation by x/y/z field decoding.
package refcpu

const (
	FZ = 0x80
	FN = 0x40
	FH = 0x20
	FC = 0x10
)

type Regs struct {
	A, F, B, C, D, E, H, L uint8
	SP, PC                 uint16
}

func (r *Regs) BC() uint16     { return uint16(r.B)<<8 | uint16(r.C) }
func (r *Regs) DE() uint16     { return uint16(r.D)<<8 | uint16(r.E) }
func (r *Regs) HL() uint16     { return uint16(r.H)<<8 | uint16(r.L) }
func (r *Regs) setBC(v uint16) { r.B, r.C = uint8(v>>8), uint8(v) }
func (r *Regs) setDE(v uint16) { r.D, r.E = uint8(v>>8), uint8(v) }
func (r *Regs) setHL(v uint16) { r.H, r.L = uint8(v>>8), uint8(v) }

type Access struct {
	Cycle int // 1-based machine cycle within the instruction
	Write bool
	Addr  uint16
	Val   uint8 // value written (writes) / value read (reads)
}

const (
	IMENone = iota
	IMEDisable
	IMEEnableDelayed
	IMEEnableNow
)

type Result struct {
	R         Regs
	Acc       []Access // data accesses in order (not opcode/operand fetches)
	Cycles    int
	Taken     bool
	Cond      bool // instruction is conditional
	IME       int
	Halt      bool
	Stop      bool
	Undefined bool
	Len       int
}

func (res *Result) Writes() []Access {
	var w []Access
	for _, a := range res.Acc {
		if a.Write {
			w = append(w, a)
		}
	}
	return w
}

func IsUndefined(op uint8) bool {
	switch op {
	case 0xd3, 0xdb, 0xdd, 0xe3, 0xe4, 0xeb, 0xec, 0xed, 0xf4, 0xfc, 0xfd:
		return true
	}
	return false
}

type stepper struct {
	r    Regs
	rd   func(uint16) uint8
	acc  []Access
	over map[uint16]uint8 // writes made so far by this instruction
}

func (s *stepper) read(cycle int, a uint16) uint8 {
	v, ok := s.over[a]
	if !ok {
		v = s.rd(a)
	}
	s.acc = append(s.acc, Access{cycle, false, a, v})
	return v
}

func (s *stepper) write(cycle int, a uint16, v uint8) {
	if s.over == nil {
		s.over = map[uint16]uint8{}
	}
	s.over[a] = v
	s.acc = append(s.acc, Access{cycle, true, a, v})
}

func (s *stepper) fetch() uint8 {
	v := s.rd(s.r.PC)
	s.r.PC++
	return v
}

func (s *stepper) flag(mask uint8, on bool) {
	if on {
		s.r.F |= mask
	} else {
		s.r.F &^= mask
	}
}

func (s *stepper) getR(i uint8, cycle int) uint8 {
	switch i {
	case 0:
		return s.r.B
	case 1:
		return s.r.C
	case 2:
		return s.r.D
	case 3:
		return s.r.E
	case 4:
		return s.r.H
	case 5:
		return s.r.L
	case 6:
		return s.read(cycle, s.r.HL())
	default:
		return s.r.A
	}
}

func (s *stepper) setR(i uint8, v uint8, cycle int) {
	switch i {
	case 0:
		s.r.B = v
	case 1:
		s.r.C = v
	case 2:
		s.r.D = v
	case 3:
		s.r.E = v
	case 4:
		s.r.H = v
	case 5:
		s.r.L = v
	case 6:
		s.write(cycle, s.r.HL(), v)
	default:
		s.r.A = v
	}
}

func (s *stepper) getRP(p uint8) uint16 {
	switch p {
	case 0:
		return s.r.BC()
	case 1:
		return s.r.DE()
	case 2:
		return s.r.HL()
	default:
		return s.r.SP
	}
}

func (s *stepper) setRP(p uint8, v uint16) {
	switch p {
	case 0:
		s.r.setBC(v)
	case 1:
		s.r.setDE(v)
	case 2:
		s.r.setHL(v)
	default:
		s.r.SP = v
	}
}

func (s *stepper) cond(i uint8) bool {
	switch i {
	case 0:
		return s.r.F&FZ == 0
	case 1:
		return s.r.F&FZ != 0
	case 2:
		return s.r.F&FC == 0
	default:
		return s.r.F&FC != 0
	}
}

func (s *stepper) alu(op uint8, v uint8) {
	a := s.r.A
	c := 0
	if s.r.F&FC != 0 {
		c = 1
	}
	var f uint8
	switch op {
	case 0, 1: // ADD, ADC
		if op == 0 {
			c = 0
		}
		sum := int(a) + int(v) + c
		if int(a&15)+int(v&15)+c > 15 {
			f |= FH
		}
		if sum > 255 {
			f |= FC
		}
		a = uint8(sum)
		if a == 0 {
			f |= FZ
		}
		s.r.A = a
	case 2, 3, 7: // SUB, SBC, CP
		if op != 3 {
			c = 0
		}
		diff := int(a) - int(v) - c
		f |= FN
		if int(a&15) < int(v&15)+c {
			f |= FH
		}
		if diff < 0 {
			f |= FC
		}
		res := uint8(diff)
		if res == 0 {
			f |= FZ
		}
		if op != 7 {
			s.r.A = res
		}
	case 4:
		a &= v
		f = FH
		if a == 0 {
			f |= FZ
		}
		s.r.A = a
	case 5:
		a ^= v
		if a == 0 {
			f |= FZ
		}
		s.r.A = a
	case 6:
		a |= v
		if a == 0 {
			f |= FZ
		}
		s.r.A = a
	}
	s.r.F = f
}

func (s *stepper) rot(op uint8, v uint8) uint8 {
	c := uint8(0)
	if s.r.F&FC != 0 {
		c = 1
	}
	var out, co uint8
	switch op {
	case 0: // RLC
		co = v >> 7
		out = v<<1 | co
	case 1: // RRC
		co = v & 1
		out = v>>1 | co<<7
	case 2: // RL
		co = v >> 7
		out = v<<1 | c
	case 3: // RR
		co = v & 1
		out = v>>1 | c<<7
	case 4: // SLA
		co = v >> 7
		out = v << 1
	case 5: // SRA
		co = v & 1
		out = v>>1 | v&0x80
	case 6: // SWAP
		co = 0
		out = v<<4 | v>>4
	default: // SRL
		co = v & 1
		out = v >> 1
	}
	var f uint8
	if out == 0 {
		f |= FZ
	}
	if co != 0 {
		f |= FC
	}
	s.r.F = f
	return out
}

func (s *stepper) push16(v uint16, c1, c2 int) {
	s.r.SP--
	s.write(c1, s.r.SP, uint8(v>>8))
	s.r.SP--
	s.write(c2, s.r.SP, uint8(v))
}

func (s *stepper) pop16(c1, c2 int) uint16 {
	lo := s.read(c1, s.r.SP)
	s.r.SP++
	hi := s.read(c2, s.r.SP)
	s.r.SP++
	return uint16(hi)<<8 | uint16(lo)
}

func (s *stepper) addSP(d uint8) uint16 {
	sp := s.r.SP
	var f uint8
	if (sp&15)+uint16(d&15) > 15 {
		f |= FH
	}
	if (sp&0xff)+uint16(d) > 0xff {
		f |= FC
	}
	s.r.F = f
	return uint16(int32(sp) + int32(int8(d)))
}

// Step executes the instruction at r.PC. haltbug: the opcode byte is fetched without advancing PC.
// cbAlt selects the alternative decoding of a CB prefix under the halt bug (sub-opcode = the prefix byte itself).
func Step(r Regs, rd func(uint16) uint8, haltbug bool) Result {
	s := &stepper{r: r, rd: rd}
	res := Result{}
	pc0 := r.PC
	op := s.fetch()
	if haltbug {
		s.r.PC = pc0
	}
	x, y, z := op>>6, (op>>3)&7, op&7
	p, q := y>>1, y&1
	cycles := 1
	switch x {
	case 0:
		switch z {
		case 0:
			switch {
			case y == 0:
			case y == 1:
				lo := s.fetch()
				hi := s.fetch()
				a := uint16(hi)<<8 | uint16(lo)
				s.write(4, a, uint8(s.r.SP))
				s.write(5, a+1, uint8(s.r.SP>>8))
				cycles = 5
			case y == 2:
				res.Stop = true
			case y == 3:
				d := s.fetch()
				s.r.PC = uint16(int32(s.r.PC) + int32(int8(d)))
				cycles = 3
				res.Taken = true
			default:
				d := s.fetch()
				res.Cond = true
				if s.cond(y - 4) {
					s.r.PC = uint16(int32(s.r.PC) + int32(int8(d)))
					cycles = 3
					res.Taken = true
				} else {
					cycles = 2
				}
			}
		case 1:
			if q == 0 {
				lo := s.fetch()
				hi := s.fetch()
				s.setRP(p, uint16(hi)<<8|uint16(lo))
				cycles = 3
			} else {
				hl := s.r.HL()
				v := s.getRP(p)
				s.flag(FN, false)
				s.flag(FH, (hl&0xfff)+(v&0xfff) > 0xfff)
				s.flag(FC, uint32(hl)+uint32(v) > 0xffff)
				s.r.setHL(hl + v)
				cycles = 2
			}
		case 2:
			cycles = 2
			var a uint16
			switch p {
			case 0:
				a = s.r.BC()
			case 1:
				a = s.r.DE()
			default:
				a = s.r.HL()
			}
			if q == 0 {
				s.write(2, a, s.r.A)
			} else {
				s.r.A = s.read(2, a)
			}
			if p == 2 {
				s.r.setHL(a + 1)
			} else if p == 3 {
				s.r.setHL(a - 1)
			}
		case 3:
			if q == 0 {
				s.setRP(p, s.getRP(p)+1)
			} else {
				s.setRP(p, s.getRP(p)-1)
			}
			cycles = 2
		case 4, 5:
			v := s.getR(y, 2)
			var n uint8
			if z == 4 {
				n = v + 1
				s.flag(FN, false)
				s.flag(FH, v&15 == 15)
			} else {
				n = v - 1
				s.flag(FN, true)
				s.flag(FH, v&15 == 0)
			}
			s.flag(FZ, n == 0)
			s.setR(y, n, 3)
			if y == 6 {
				cycles = 3
			}
		case 6:
			n := s.fetch()
			s.setR(y, n, 3)
			cycles = 2
			if y == 6 {
				cycles = 3
			}
		case 7:
			switch y {
			case 0, 1, 2, 3:
				s.r.A = s.rot(y, s.r.A)
				s.r.F &^= FZ
			case 4: // DAA
				a := s.r.A
				cf := s.r.F&FC != 0
				hf := s.r.F&FH != 0
				if s.r.F&FN == 0 {
					if cf || a > 0x99 {
						a += 0x60
						cf = true
					}
					if hf || a&0x0f > 0x09 {
						a += 0x06
					}
				} else {
					if cf {
						a -= 0x60
					}
					if hf {
						a -= 0x06
					}
				}
				s.r.A = a
				s.flag(FZ, a == 0)
				s.flag(FH, false)
				s.flag(FC, cf)
			case 5:
				s.r.A = ^s.r.A
				s.r.F |= FN | FH
			case 6:
				s.r.F = s.r.F&FZ | FC
			case 7:
				s.r.F = s.r.F&FZ | (^s.r.F)&FC
			}
		}
	case 1:
		if op == 0x76 {
			res.Halt = true
		} else {
			v := s.getR(z, 2)
			s.setR(y, v, 2)
			if y == 6 || z == 6 {
				cycles = 2
			}
		}
	case 2:
		v := s.getR(z, 2)
		s.alu(y, v)
		if z == 6 {
			cycles = 2
		}
	case 3:
		switch z {
		case 0:
			switch {
			case y < 4:
				res.Cond = true
				if s.cond(y) {
					s.r.PC = s.pop16(3, 4)
					cycles = 5
					res.Taken = true
				} else {
					cycles = 2
				}
			case y == 4:
				n := s.fetch()
				s.write(3, 0xff00|uint16(n), s.r.A)
				cycles = 3
			case y == 5:
				d := s.fetch()
				s.r.SP = s.addSP(d)
				cycles = 4
			case y == 6:
				n := s.fetch()
				s.r.A = s.read(3, 0xff00|uint16(n))
				cycles = 3
			default:
				d := s.fetch()
				s.r.setHL(s.addSP(d))
				cycles = 3
			}
		case 1:
			if q == 0 {
				v := s.pop16(2, 3)
				switch p {
				case 0:
					s.r.setBC(v)
				case 1:
					s.r.setDE(v)
				case 2:
					s.r.setHL(v)
				default:
					s.r.A = uint8(v >> 8)
					s.r.F = uint8(v) & 0xf0
				}
				cycles = 3
			} else {
				switch p {
				case 0:
					s.r.PC = s.pop16(2, 3)
					cycles = 4
					res.Taken = true
				case 1:
					s.r.PC = s.pop16(2, 3)
					cycles = 4
					res.Taken = true
					res.IME = IMEEnableNow
				case 2:
					s.r.PC = s.r.HL()
					res.Taken = true
				default:
					s.r.SP = s.r.HL()
					cycles = 2
				}
			}
		case 2:
			switch {
			case y < 4:
				lo := s.fetch()
				hi := s.fetch()
				res.Cond = true
				if s.cond(y) {
					s.r.PC = uint16(hi)<<8 | uint16(lo)
					cycles = 4
					res.Taken = true
				} else {
					cycles = 3
				}
			case y == 4:
				s.write(2, 0xff00|uint16(s.r.C), s.r.A)
				cycles = 2
			case y == 5:
				lo := s.fetch()
				hi := s.fetch()
				s.write(4, uint16(hi)<<8|uint16(lo), s.r.A)
				cycles = 4
			case y == 6:
				s.r.A = s.read(2, 0xff00|uint16(s.r.C))
				cycles = 2
			default:
				lo := s.fetch()
				hi := s.fetch()
				s.r.A = s.read(4, uint16(hi)<<8|uint16(lo))
				cycles = 4
			}
		case 3:
			switch y {
			case 0:
				lo := s.fetch()
				hi := s.fetch()
				s.r.PC = uint16(hi)<<8 | uint16(lo)
				cycles = 4
				res.Taken = true
			case 1:
				cb := s.fetch()
				cx, cy, cz := cb>>6, (cb>>3)&7, cb&7
				cycles = 2
				switch cx {
				case 0:
					v := s.getR(cz, 3)
					s.setR(cz, s.rot(cy, v), 4)
					if cz == 6 {
						cycles = 4
					}
				case 1:
					v := s.getR(cz, 3)
					s.flag(FZ, v&(1<<cy) == 0)
					s.flag(FN, false)
					s.flag(FH, true)
					if cz == 6 {
						cycles = 3
					}
				case 2:
					v := s.getR(cz, 3)
					s.setR(cz, v&^(1<<cy), 4)
					if cz == 6 {
						cycles = 4
					}
				default:
					v := s.getR(cz, 3)
					s.setR(cz, v|(1<<cy), 4)
					if cz == 6 {
						cycles = 4
					}
				}
			case 6:
				res.IME = IMEDisable
			case 7:
				res.IME = IMEEnableDelayed
			default:
				res.Undefined = true
			}
		case 4:
			if y < 4 {
				lo := s.fetch()
				hi := s.fetch()
				res.Cond = true
				if s.cond(y) {
					s.push16(s.r.PC, 5, 6)
					s.r.PC = uint16(hi)<<8 | uint16(lo)
					cycles = 6
					res.Taken = true
				} else {
					cycles = 3
				}
			} else {
				res.Undefined = true
			}
		case 5:
			if q == 0 {
				var v uint16
				switch p {
				case 0:
					v = s.r.BC()
				case 1:
					v = s.r.DE()
				case 2:
					v = s.r.HL()
				default:
					v = uint16(s.r.A)<<8 | uint16(s.r.F)
				}
				s.push16(v, 3, 4)
				cycles = 4
			} else if p == 0 {
				lo := s.fetch()
				hi := s.fetch()
				s.push16(s.r.PC, 5, 6)
				s.r.PC = uint16(hi)<<8 | uint16(lo)
				cycles = 6
				res.Taken = true
			} else {
				res.Undefined = true
			}
		case 6:
			n := s.fetch()
			s.alu(y, n)
			cycles = 2
		case 7:
			s.push16(s.r.PC, 3, 4)
			s.r.PC = uint16(y) * 8
			cycles = 4
			res.Taken = true
		}
	}
	res.R = s.r
	res.Acc = s.acc
	res.Cycles = cycles
	return res
}
