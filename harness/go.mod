module verifharness

go 1.23

require (
	github.com/go-gl/gl v0.0.0-20190320180904-bf2b1f2f34d7
	github.com/go-gl/glfw v0.0.0-20200222043503-6f7a984d4dc4
	github.com/gordonklaus/portaudio v0.0.0-20180817120803-00e7307ccd93
	github.com/scottyw/tetromino v0.0.0
	pgregory.net/rapid v1.3.0
)

replace github.com/scottyw/tetromino => /repo

replace github.com/go-gl/gl => ../fakes/gl

replace github.com/go-gl/glfw => ../fakes/glfw

replace github.com/gordonklaus/portaudio => ../fakes/portaudio
