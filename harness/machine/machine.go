// Package machine assembles a Game Boy from tetromino's public constructors,
// wired exactly as gameboy.New does, and steps it in the order of runFrame.
package machine

import (
	"io"

	"github.com/scottyw/tetromino/gameboy/audio"
	"github.com/scottyw/tetromino/gameboy/controller"
	"github.com/scottyw/tetromino/gameboy/cpu"
	"github.com/scottyw/tetromino/gameboy/interrupts"
	"github.com/scottyw/tetromino/gameboy/memory"
	"github.com/scottyw/tetromino/gameboy/oam"
	"github.com/scottyw/tetromino/gameboy/ppu"
	"github.com/scottyw/tetromino/gameboy/serial"
	"github.com/scottyw/tetromino/gameboy/timer"
)

type M struct {
	I   *interrupts.Interrupts
	O   *oam.OAM
	A   *audio.Audio
	P   *ppu.PPU
	S   *serial.Serial
	T   *timer.Timer
	C   *controller.Controller
	Mp  *memory.Mapper
	CPU *cpu.CPU

	L, R         chan float32
	NL, NR       int
	LastL, LastR float32
	OnSample     func(left bool, v float32)
}

// New builds a complete machine. withAudio attaches small buffered sample
// channels that are drained synchronously after every cycle.
func New(rom []byte, w io.Writer, withAudio bool) *M { return NewCfg(rom, w, withAudio, false) }

// NewCfg: as New, the picture unit built with the given LCD debug option (gameboy.Config.DebugLCD).
func NewCfg(rom []byte, w io.Writer, withAudio, debugLCD bool) *M {
	m := newHWCfg(rom, w, withAudio, debugLCD)
	m.CPU = cpu.New(m.I, m.O, false, m.Mp)
	m.CPU.Initialize()
	return m
}

// NewHW builds everything but the CPU.
func NewHW(rom []byte, w io.Writer, withAudio bool) *M {
	return newHW(rom, w, withAudio)
}

func newHW(rom []byte, w io.Writer, withAudio bool) *M { return newHWCfg(rom, w, withAudio, false) }

func newHWCfg(rom []byte, w io.Writer, withAudio, debugLCD bool) *M {
	m := &M{}
	m.I = interrupts.New()
	m.O = oam.New()
	if withAudio {
		m.L = make(chan float32, 8)
		m.R = make(chan float32, 8)
	}
	m.A = audio.New(m.L, m.R)
	m.P = ppu.New(m.I, m.O, debugLCD)
	m.S = serial.New(w)
	m.T = timer.New()
	m.C = controller.New()
	m.Mp = memory.New(rom, m.I, m.O, m.P, m.C, m.S, m.T, m.A)
	return m
}

func (m *M) drain() {
	for {
		select {
		case v := <-m.L:
			m.NL++
			m.LastL = v
			if m.OnSample != nil {
				m.OnSample(true, v)
			}
		case v := <-m.R:
			m.NR++
			m.LastR = v
			if m.OnSample != nil {
				m.OnSample(false, v)
			}
		default:
			return
		}
	}
}

// HW advances every component except the CPU by one machine cycle.
func (m *M) HW() {
	m.P.EndMachineCycle()
	m.Mp.EndMachineCycle()
	m.A.EndMachineCycle()
	if m.L != nil {
		m.drain()
	}
	if m.T.EndMachineCycle() {
		m.I.RequestTimer()
	}
}

// Cycle is one machine cycle of the whole machine, CPU first.
func (m *M) Cycle() {
	m.CPU.ExecuteMachineCycle()
	m.HW()
}

// MakeROM returns an image of 2<<romSize pages in which every 256-byte block
// of page p starts with p (lo), p (hi), 0xA5^lo, and each page ends with the
// same three bytes, so one read identifies the mapped page.
func MakeROM(cartType, romSize, ramSize byte) []byte {
	pages := 2 << romSize
	rom := make([]byte, pages*0x4000)
	for p := 0; p < pages; p++ {
		for i := 0; i < 0x4000; i += 0x100 {
			SigAt(rom, p, i)
		}
		SigAt(rom, p, 0x3ffd)
	}
	rom[0x147] = cartType
	rom[0x148] = romSize
	rom[0x149] = ramSize
	return rom
}

func SigAt(rom []byte, page, off int) {
	rom[page*0x4000+off] = byte(page)
	rom[page*0x4000+off+1] = byte(page >> 8)
	rom[page*0x4000+off+2] = 0xA5 ^ byte(page)
}

// Sig returns what the three signature bytes of a page look like.
func Sig(page int) [3]byte { return [3]byte{byte(page), byte(page >> 8), 0xA5 ^ byte(page)} }
