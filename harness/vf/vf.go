// Package vf is the small framework shared by all property checks: run
// environment (tier, seed, shard), evidence collection, failure files,
// known-finding matching and the replay registry.
package vf

import (
	"encoding/json"
	"flag"
	"fmt"
	"hash/fnv"
	"os"
	"path/filepath"
	"runtime/debug"
	"sort"
	"strconv"
	"strings"
	"sync"
	"testing"

	"pgregory.net/rapid"
)

// Env describes how the driver started this process.
type Env struct {
	Tier    string // quick | thorough
	Seed    int64  // VERIF_SEED
	Shard   int    // 0-based
	NShards int
	Out     string // shard report path ("" = stdout summary only)
	Root    string // /verif
	WorkDir string // .work/<ID>
}

func GetEnv() Env {
	e := Env{Tier: "quick", NShards: 1, Root: "/verif"}
	if v := os.Getenv("VERIF_TIER"); v == "thorough" {
		e.Tier = v
	}
	if v := os.Getenv("VERIF_SEED"); v != "" {
		if n, err := strconv.ParseInt(v, 10, 64); err == nil {
			e.Seed = n
		}
	}
	if v := os.Getenv("VERIF_SHARD"); v != "" {
		parts := strings.Split(v, "/")
		if len(parts) == 2 {
			e.Shard, _ = strconv.Atoi(parts[0])
			e.NShards, _ = strconv.Atoi(parts[1])
			if e.NShards < 1 {
				e.NShards = 1
			}
		}
	}
	e.Out = os.Getenv("VERIF_OUT")
	if v := os.Getenv("VERIF_ROOT"); v != "" {
		e.Root = v
	}
	e.WorkDir = os.Getenv("VERIF_WORK")
	if e.WorkDir == "" {
		e.WorkDir = filepath.Join(e.Root, ".work", "adhoc")
	}
	return e
}

// Thorough reports whether the thorough tier was requested.
func (e Env) Thorough() bool { return e.Tier == "thorough" }

// Pick returns q in the quick tier and th in the thorough tier.
func (e Env) Pick(q, th int) int {
	if e.Thorough() {
		return th
	}
	return q
}

// Mine reports whether index i of a partitioned enumeration belongs to this shard.
func (e Env) Mine(i int) bool { return i%e.NShards == e.Shard }

// Rand returns a deterministic PRNG state for (seed, shard, stream).
func (e Env) RandSeed(stream int64) int64 {
	return e.Seed*1000003 + int64(e.Shard)*7919 + stream*104729 + 12345
}

// ---------------------------------------------------------------------------

type knownFinding struct {
	ID         string   `json:"id"`
	Properties []string `json:"properties"`
	Status     string   `json:"status"`
	Sig        string   `json:"sig"`
	What       string   `json:"what"`
}

type Failure struct {
	Check string          `json:"check"`
	Sig   string          `json:"sig"`
	Msg   string          `json:"msg"`
	Case  json.RawMessage `json:"case"`
	File  string          `json:"file"`
	Known string          `json:"known,omitempty"`
}

// Report is what one shard process hands back to the driver.
type Report struct {
	Property    string                   `json:"property"`
	Shard       int                      `json:"shard"`
	Evaluations int64                    `json:"evaluations"`
	Nontrivial  int64                    `json:"nontrivial_counted"` // distinct-by-construction count (enumerations)
	Hashes      []uint64                 `json:"hashes"`             // distinct non-trivial hashes of generated cases
	HashesTrunc bool                     `json:"hashes_truncated"`
	HashCount   int                      `json:"hash_count"`
	Classes     map[string]int64         `json:"classes"`
	Samples     []map[string]interface{} `json:"samples"`
	Failures    []Failure                `json:"failures"`
	Known       map[string]int64         `json:"known"`
	Excluded    map[string]int64         `json:"excluded_known"`
	Requested   map[string]int64         `json:"requested"`
	Completed   map[string]int64         `json:"completed"`
	Exhaustive  []string                 `json:"exhaustive_subspaces"`
	Notes       []string                 `json:"notes"`
	Rule        string                   `json:"rule"`
	Extra       map[string]interface{}   `json:"extra"`
	Done        bool                     `json:"done"`
}

type Collector struct {
	mu       sync.Mutex
	Env      Env
	rep      Report
	hashes   map[uint64]struct{}
	perClass map[string]int
	open     map[string]knownFinding // sig -> finding (open only, for this property)
	t        *testing.T
}

const maxHashesShipped = 400000

func New(t *testing.T, prop, rule string) *Collector {
	c := &Collector{Env: GetEnv(), hashes: map[uint64]struct{}{}, perClass: map[string]int{}, open: map[string]knownFinding{}, t: t}
	c.rep = Report{Property: prop, Shard: c.Env.Shard, Classes: map[string]int64{}, Known: map[string]int64{},
		Excluded: map[string]int64{}, Requested: map[string]int64{}, Completed: map[string]int64{}, Rule: rule, Extra: map[string]interface{}{}}
	b, err := os.ReadFile(filepath.Join(c.Env.Root, "known_findings.json"))
	if err == nil {
		var kf struct {
			Findings []knownFinding `json:"findings"`
		}
		if json.Unmarshal(b, &kf) == nil {
			for _, f := range kf.Findings {
				if f.Status != "open" {
					continue
				}
				for _, p := range f.Properties {
					if p == prop {
						c.open[f.Sig] = f
					}
				}
			}
		}
	}
	os.MkdirAll(c.Env.WorkDir, 0o755)
	return c
}

// OpenKnown reports whether a finding with this signature is listed as open for this property.
func (c *Collector) OpenKnown(sig string) bool {
	_, ok := c.open[sig]
	return ok
}

func Hash(parts ...interface{}) uint64 {
	h := fnv.New64a()
	for _, p := range parts {
		switch v := p.(type) {
		case string:
			h.Write([]byte(v))
		case []byte:
			h.Write(v)
		default:
			b, _ := json.Marshal(v)
			h.Write(b)
		}
		h.Write([]byte{0})
	}
	return h.Sum64()
}

// Case records one generated case. key identifies the case for distinctness
// (0 = hash the sample). sample is only evaluated for the first few cases of a class.
func (c *Collector) Case(class string, key uint64, nontrivial bool, sample func() interface{}) {
	c.mu.Lock()
	defer c.mu.Unlock()
	c.rep.Evaluations++
	c.rep.Classes[class]++
	if nontrivial {
		c.hashes[key] = struct{}{}
	}
	if sample != nil && c.perClass[class] < 2 && len(c.rep.Samples) < 24 {
		c.perClass[class]++
		c.rep.Samples = append(c.rep.Samples, map[string]interface{}{"class": class, "case": sample()})
	}
}

// Bulk records n cases of an enumeration that are distinct by construction.
func (c *Collector) Bulk(class string, n, nontrivial int64) {
	c.mu.Lock()
	defer c.mu.Unlock()
	c.rep.Evaluations += n
	c.rep.Classes[class] += n
	c.rep.Nontrivial += nontrivial
}

// Sample adds a sample for a class regardless of Case bookkeeping.
func (c *Collector) Sample(class string, s interface{}) {
	c.mu.Lock()
	defer c.mu.Unlock()
	if c.perClass["s:"+class] < 2 && len(c.rep.Samples) < 24 {
		c.perClass["s:"+class]++
		c.rep.Samples = append(c.rep.Samples, map[string]interface{}{"class": class, "case": s})
	}
}

func (c *Collector) Class(class string, n int64) {
	c.mu.Lock()
	c.rep.Classes[class] += n
	c.mu.Unlock()
}

func (c *Collector) Exhaustive(subspace string) {
	c.mu.Lock()
	c.rep.Exhaustive = append(c.rep.Exhaustive, subspace)
	c.mu.Unlock()
}

func (c *Collector) Note(format string, a ...interface{}) {
	c.mu.Lock()
	c.rep.Notes = append(c.rep.Notes, fmt.Sprintf(format, a...))
	c.mu.Unlock()
}

func (c *Collector) Extra(k string, v interface{}) {
	c.mu.Lock()
	c.rep.Extra[k] = v
	c.mu.Unlock()
}

func (c *Collector) Excluded(sig string, n int64) {
	c.mu.Lock()
	c.rep.Excluded[sig] += n
	c.mu.Unlock()
}

func (c *Collector) Progress(name string, requested, completed int64) {
	c.mu.Lock()
	c.rep.Requested[name] += requested
	c.rep.Completed[name] += completed
	c.mu.Unlock()
}

// Fail records a failing case. It returns true when the failure matches an
// open known finding (the caller should then carry on searching) and false
// when it is a violation (the caller should fail the test).
func (c *Collector) Fail(check, sig, msg string, cas interface{}) bool {
	c.mu.Lock()
	defer c.mu.Unlock()
	if kf, ok := c.open[sig]; ok && sig != "" {
		c.rep.Known[kf.ID]++
		return true
	}
	raw, _ := json.Marshal(cas)
	file := filepath.Join(c.Env.WorkDir, fmt.Sprintf("fail-%s-%s-s%d.json", c.rep.Property, sanitize(check), c.Env.Shard))
	f := Failure{Check: check, Sig: sig, Msg: msg, Case: raw, File: file}
	doc := map[string]interface{}{"property": c.rep.Property, "check": check, "sig": sig, "msg": msg, "case": json.RawMessage(raw)}
	b, _ := json.MarshalIndent(doc, "", " ")
	os.WriteFile(file, b, 0o644)
	// keep only the latest failure per check (rapid re-runs the shrunk case last)
	for i := range c.rep.Failures {
		if c.rep.Failures[i].Check == check {
			c.rep.Failures[i] = f
			return false
		}
	}
	c.rep.Failures = append(c.rep.Failures, f)
	return false
}

// FailFirst is Fail for enumerations: only the first failing case of each
// (check, sig) is kept and written; later ones are only counted. It returns
// (known, first): first is true when this was the first failure of its kind.
func (c *Collector) FailFirst(check, sig, msg string, cas interface{}) (known, first bool) {
	c.mu.Lock()
	if kf, ok := c.open[sig]; ok && sig != "" {
		c.rep.Known[kf.ID]++
		c.mu.Unlock()
		return true, false
	}
	key := "fail:" + check + "/" + sig
	c.rep.Classes[key]++
	n := c.rep.Classes[key]
	c.mu.Unlock()
	if n > 1 {
		return false, false
	}
	return c.Fail(check+"#"+sanitize(sig), sig, msg, cas), true
}

func sanitize(s string) string {
	var b strings.Builder
	for _, r := range s {
		if r >= 'a' && r <= 'z' || r >= 'A' && r <= 'Z' || r >= '0' && r <= '9' || r == '-' || r == '_' {
			b.WriteRune(r)
		} else {
			b.WriteByte('_')
		}
	}
	return b.String()
}

// Flush writes the shard report. Call it with defer at the top of TestCxx.
func (c *Collector) Flush() {
	c.mu.Lock()
	defer c.mu.Unlock()
	c.rep.HashCount = len(c.hashes)
	c.rep.Hashes = c.rep.Hashes[:0]
	if len(c.hashes) <= maxHashesShipped {
		for h := range c.hashes {
			c.rep.Hashes = append(c.rep.Hashes, h)
		}
		sort.Slice(c.rep.Hashes, func(i, j int) bool { return c.rep.Hashes[i] < c.rep.Hashes[j] })
	} else {
		c.rep.HashesTrunc = true
	}
	c.rep.Done = true
	if c.Env.Out == "" {
		fmt.Printf("[vf] %s evaluations=%d distinct_nontrivial=%d failures=%d known=%v classes=%v\n", c.rep.Property,
			c.rep.Evaluations, int64(len(c.hashes))+c.rep.Nontrivial, len(c.rep.Failures), c.rep.Known, c.rep.Classes)
		for _, f := range c.rep.Failures {
			fmt.Printf("[vf] FAIL %s sig=%s %s -> %s\n", f.Check, f.Sig, f.Msg, f.File)
		}
		return
	}
	b, _ := json.Marshal(&c.rep)
	tmp := c.Env.Out + ".tmp"
	os.WriteFile(tmp, b, 0o644)
	os.Rename(tmp, c.Env.Out)
}

// ---------------------------------------------------------------------------
// rapid glue

// Rapid runs a rapid campaign of quickN / thoroughN cases in total (divided
// between the shards) as a subtest, so that one failing campaign does not
// prevent the others in the same TestCxx from running. The PRNG seed is a
// pure function of VERIF_SEED, the shard and the campaign name.
func (c *Collector) Rapid(name string, quickN, thoroughN int, prop func(*rapid.T)) {
	n := c.Env.Pick(quickN, thoroughN)
	per := (n + c.Env.NShards - 1) / c.Env.NShards
	if per < 1 {
		per = 1
	}
	seed := (uint64(c.Env.Seed)*1000003 + uint64(c.Env.Shard)*7919 + Hash(c.rep.Property, name)) & (1<<62 - 1)
	if seed == 0 {
		seed = 1 // rapid treats 0 as "random"
	}
	flag.Set("rapid.checks", strconv.Itoa(per))
	flag.Set("rapid.seed", strconv.FormatUint(seed, 10))
	flag.Set("rapid.nofailfile", "true")
	flag.Set("rapid.shrinktime", "20s")
	before := c.evals()
	c.t.Run(name, func(t *testing.T) {
		rapid.Check(t, prop)
	})
	c.Progress(name, int64(per), c.evals()-before)
}

func (c *Collector) evals() int64 {
	c.mu.Lock()
	defer c.mu.Unlock()
	return c.rep.Evaluations
}

// Recover turns a panic in the code under test into an oracle failure. Use
// as: defer vf.Recover(&sig, &err) at the top of a runCase function.
func Recover(sig *string, err *error) {
	if r := recover(); r != nil {
		if tn := fmt.Sprintf("%T", r); strings.HasPrefix(tn, "rapid.") {
			panic(r)
		}
		stack := string(debug.Stack())
		where := ""
		for _, line := range strings.Split(stack, "\n") {
			if strings.Contains(line, "/repo/") {
				where = strings.TrimSpace(line)
				if i := strings.Index(where, " +0x"); i > 0 {
					where = where[:i]
				}
				break
			}
		}
		*sig = "panic"
		*err = fmt.Errorf("panic in code under test: %v at %s", r, where)
	}
}

// Sub runs fn as a subtest (used for enumerations).
func (c *Collector) Sub(name string, fn func(t *testing.T)) {
	c.t.Run(name, fn)
}

// ---------------------------------------------------------------------------
// replay registry

type ReplayFunc func(raw json.RawMessage) (sig string, err error)

var replayers = map[string]ReplayFunc{}

// RegisterReplay registers the executor for cases of "<property>/<check>".
func RegisterReplay(key string, f ReplayFunc) { replayers[key] = f }

type ReplayDoc struct {
	Property string          `json:"property"`
	Check    string          `json:"check"`
	Sig      string          `json:"sig"`
	Msg      string          `json:"msg"`
	Case     json.RawMessage `json:"case"`
}

// Replay executes a saved case, bypassing every generator library.
func Replay(path string) (doc ReplayDoc, sig string, err error, found bool) {
	b, rerr := os.ReadFile(path)
	if rerr != nil {
		return doc, "", rerr, false
	}
	if jerr := json.Unmarshal(b, &doc); jerr != nil {
		return doc, "", jerr, false
	}
	chk := doc.Check
	if i := strings.Index(chk, "#"); i >= 0 {
		chk = chk[:i] // FailFirst appends "#<sig>" to keep one file per signature
	}
	f, ok := replayers[doc.Property+"/"+chk]
	if !ok {
		return doc, "", fmt.Errorf("no replayer registered for %s/%s", doc.Property, doc.Check), false
	}
	sig, err = f(doc.Case)
	return doc, sig, err, true
}

// RunReplays runs every committed replay of a property (shard 0 only) and
// records failures like any other case.
func (c *Collector) RunReplays() {
	if c.Env.Shard != 0 {
		return
	}
	files, _ := filepath.Glob(filepath.Join(c.Env.Root, "replays", c.rep.Property+"-*.json"))
	sort.Strings(files)
	for _, p := range files {
		doc, sig, err, found := Replay(p)
		if !found {
			c.Note("replay %s: %v", filepath.Base(p), err)
			continue
		}
		c.Case("replay", Hash(p), true, func() interface{} { return filepath.Base(p) })
		if err != nil {
			if !c.Fail(doc.Check, sig, err.Error(), json.RawMessage(doc.Case)) {
				c.t.Errorf("replay %s: %v", filepath.Base(p), err)
			}
		}
	}
}
